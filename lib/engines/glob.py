"""C21 glob() and C22 `//dir/...` expansion: Glob.tla / PackageWalk.tla, G->I into fs.Globber and plz.FindAllBuildFiles.

The specifications compute, per case, the property-level bounds Must <= May (every conforming result lies
between them), the algorithm-level model's result and - where that model leaves the property - the recorded
flaw that explains it. Python only renders paths, runs the harness, compares the real observation with the
spec's bounds and picks the signature the spec supplied.
"""
import json
import os
import shutil

import vlib
from engines import register


# ------------------------------------------------------------------------------------------ rendering
def _name(n):
    return "".join(n)


def _path(p):
    """A path / pattern is printed by TLC as an array of names, a name as an array of characters / tokens."""
    return "/".join(_name(n) for n in p)


def _paths(ps):
    return sorted(_path(p) for p in ps)


def _pairs(xs):
    return [[_path(x[0])] + list(x[1:]) for x in xs]


def _conv_glob(c):
    if c.get("_conv"):
        return c
    return dict(_conv=True, root=c["root"], hid=c["hid"], files=_paths(c["files"]), pkgs=_paths(c["pkgs"]),
                inc=[_path(p) for p in c["inc"]], exc=_paths(c["exc"]), must=_paths(c["must"]),
                opt=_paths(c["opt"]), panic=c["panic"], algo=_paths(c["algo"]), diffs=_pairs(c["diffs"]),
                forbid=_pairs(c["forbid"]), near=_paths(c.get("near", [])))


def _conv_walk(c):
    if c.get("_conv"):
        return c
    return dict(_conv=True, pkgs=_paths(c["pkgs"]), dir=_path(c["dir"]), bl=_paths(c["bl"]), ex=_paths(c["ex"]), bd=_paths(c.get("bd", [])),
                must=_paths(c["must"]), opt=_paths(c["opt"]), algo=_paths(c["algo"]), diffs=_pairs(c["diffs"]),
                forbid=_pairs(c["forbid"]), cmust=c["cmust"], cmay=c["cmay"], calgo=c["calgo"])


def _tlc(ctx, module, cfg, **kw):
    """vlib.tlc with one retry: on a heavily loaded machine a JVM occasionally dies for reasons unrelated to the spec."""
    try:
        return vlib.tlc(ctx, module, cfg, **kw)
    except vlib.Infra as ex:
        ctx.extra["tlc_retry"] = str(ex)[:300]
        return vlib.tlc(ctx, module, cfg, **kw)


def _selftest(ctx, sub, cases, judge, field):
    """Binding self-test (thorough): a deliberately wrong expectation must be reported."""
    probe = next((c for c in cases if c["must"]), None)
    if probe is None:
        return
    wrong = dict(probe)
    wrong["id"] = 0
    wrong["must"] = sorted(set(probe["must"]) | {"verif-no-such-path"})
    obs = vlib.run_vh(ctx, sub, [wrong])
    ctx.extra["binding_selftest"] = "rejected" if judge(wrong, obs[0]) else "NOT-REJECTED"
    if ctx.extra["binding_selftest"] != "rejected":
        raise vlib.Infra("binding self-test: a wrong expectation was not reported (%s)" % field)


# ------------------------------------------------------------------------------------------------ C21
CLAIM21 = dict(
    category="model_checking", design_ref="DESIGN.md §4 C21",
    text="Glob.tla defines glob's documented semantics segment-wise (`*` `?` `[class]` inside one segment, `**` = zero or more "
         "whole segments, excludes without a separator against the file name, subpackages / plz-out / hidden components never "
         "returned) as two bounds Must <= May, and an algorithm-level model of src/fs/glob.go (the walk and its SkipDir rules, "
         "filepath.Match vs the toRegexString regex as one character-level matcher, isHidden, shouldExcludeMatch) parameterised by "
         "repaired flaws. TLC enumerates trees (a rich tree with every BUILD placement, and every small tree of <=2 / <=3 paths) x "
         "root/non-root package x hidden flag x all patterns of <=2-3 segments over a segment-pattern alphabet with literal `.` `+` "
         "`$` `(` and hidden names, checks that the repaired model implements the property and that every departure of the code's "
         "model is attributed to a recorded flaw, and prints each case with its bounds. Each tree is materialised on disk and the real "
         "fs.Globber is called exactly as the asp builtin glob() calls it; verdict: Must <= returned <= May.",
    note="Weakest readings: matching directories may or may not be returned; a trailing `**` may or may not select the directory "
         "itself; files below a directory named literally by an exclude may be dropped (glob_test.go relies on it); symlinks, "
         "`#name#` hidden files, nested directories called plz-out, `[^x]` classes and `**` inside a segment are not generated. "
         "Trusted: TLC, the JSON decoding, the harness's materialisation of trees. Thorough adds an end-to-end pass through the "
         "glob() builtin of the real plz binary on sampled cases.",
    technique="TLA+ spec Glob.tla model-checked with TLC; TLC-enumerated trees x patterns with spec-computed bounds replayed into the real fs.Globber")


def _judge_glob(c, o):
    """Returns the list of (signature, info) the observation violates the property with."""
    out = []
    must, may = set(c["must"]), set(c["must"]) | set(c["opt"])
    diffs = {(d[0], d[1]): d[2] for d in c["diffs"]}
    forbid = {f[0]: f[1] for f in c["forbid"]}
    if o["panic"]:
        sig = "C21 regex-metacharacter-unescaped (panic)" if c["panic"] else "C21 unexpected-panic"
        return [(sig, o["panic"][:200])]
    got = set(o["res"])
    if "primed" in o and not o["panic"] and set(o["primed"]) != got:
        # Glob.tla: the result is a function of the tree and the call alone (HistoryFree)
        out.append(("C21 result-depends-on-earlier-glob-call-in-the-package", sorted(set(o["primed"]) ^ got)[0]))
    for p in sorted(must - got):
        cls = diffs.get((p, "missing"))
        if cls:
            out.append(("C21 " + cls, p))
        elif p in c.get("near", ()):       # the spec marks Must files whose path merely starts with the text of an exclude entry
            out.append(("C21 missing exclude-entry-drops-prefix-sharing-sibling", p))
        else:
            out.append(("C21 missing selected-file-not-returned", p))
    for p in sorted(got - may):
        cls = diffs.get((p, "extra"))
        if cls:
            out.append(("C21 " + cls, p))
        elif p in forbid:
            out.append(("C21 extra %s-path-returned" % forbid[p], p))
        else:
            out.append(("C21 extra path-not-selected-by-include", p))
    return out


def _e2e_glob(ctx, cases, n):
    """Thorough: the same cases through the real glob() builtin (plz query print of a filegroup)."""
    plz = vlib.build_plz()
    import random
    rnd = random.Random(ctx.seed)
    pool = [c for c in cases if not c["panic"] and (c["must"] or c["diffs"])]
    rnd.shuffle(pool)
    done = 0
    for c in pool[:n]:
        repo = os.path.join(ctx.scratch, "e2e-%d" % done)
        home = os.path.join(ctx.scratch, "e2e-home")
        os.makedirs(home, exist_ok=True)
        pre = "" if c["root"] == "." else c["root"] + "/"

        def put(rel, content="x\n"):
            p = os.path.join(repo, rel)
            os.makedirs(os.path.dirname(p), exist_ok=True)
            with open(p, "w") as f:
                f.write(content)
        put(".plzconfig", "[cache]\ndir = %s\n" % os.path.join(ctx.scratch, "e2e-cache"))
        for f in c["files"]:
            put(pre + f)
        for p in c["pkgs"]:
            put(pre + p + "/BUILD", "")
        put(pre + "BUILD", "filegroup(name = 'g', srcs = glob(%r, exclude = %r, hidden = %s, allow_empty = True))\n"
            % (c["inc"], c["exc"], "True" if c["hid"] else "False"))
        label = "//%s:g" % ("" if c["root"] == "." else c["root"])
        p = vlib.sh([plz, "query", "print", label, "--field", "srcs", "-p", "-v", "0"], cwd=repo, check=False, timeout=120,
                    env=dict(HOME=home, XDG_CACHE_HOME=os.path.join(home, ".cache"), XDG_CONFIG_HOME=os.path.join(home, ".config")))
        # the scratch repository's own .plzconfig is not part of the spec's tree (hidden=True would list it)
        got = sorted(l.strip() for l in (p.stdout or "").splitlines()
                     if l.strip() and not l.startswith(("WARNING", "20")) and l.strip() != ".plzconfig")
        if p.returncode != 0:
            raise vlib.Infra("e2e glob: plz query print failed rc=%d: %s" % (p.returncode, (p.stdout or "")[-800:]))
        o = dict(res=got, panic="")
        for sig, info in _judge_glob(c, o):
            ctx.violation(sig, dict(case=c, observed=o, path=info, via="plz query print"))
        shutil.rmtree(repo, ignore_errors=True)
        done += 1
    ctx.extra["e2e_builtin_cases"] = done
    return done


@register("C21", claim=CLAIM21)
def run_c21(ctx):
    ctx.rule = ("one case = (tree of files with BUILD placements, root or non-root package, hidden flag, include pattern(s), "
                "exclude pattern set), enumerated by TLC as a state of Glob.tla whose invariant checks the spec's own consistency "
                "and prints the property-level bounds; each case is one real Globber.Glob call on the materialised tree; "
                "non-trivial = some file must be returned or some selected path is forbidden; distinct by the whole case")
    ctx.assumptions = [
        "glob is called as the asp builtin calls it: Globber over the host filesystem, rootPath = package name, excludes + BUILD file names, include_symlinks=False",
        "directories matching a pattern may or may not be returned (documentation speaks of filenames, shell-style expansion yields directories)",
        "a trailing `**` may or may not select the directory itself; files under a directory named literally by an exclude may be dropped",
        "`?` and `[class]` stay inside one path segment (shell / Python glob semantics the documentation refers to)",
        "no symlinks, no `#x#` names, no nested directory called plz-out, no negated classes, `**` only as a whole segment",
    ]
    if ctx.replay_only is not None:
        cases = [_conv_glob(d["case"]) for d in ctx.replay_only]
        _tlc(ctx, "Glob", "MC_Glob_sanity.cfg", workers=8)          # the saved cases carry the spec's expectations
    else:
        if not ctx.quick:
            vlib.tlc(ctx, "Glob", "MC_Glob_sanity.cfg", workers=8)
        r = _tlc(ctx, "Glob", "GEN_Glob_quick.cfg" if ctx.quick else "GEN_Glob_thorough.cfg",
                     workers=16, timeout=300 if ctx.quick else 3000)
        cases = [_conv_glob(c) for c in r.cases]
        ctx.exhaustive = True
    for i, c in enumerate(cases):
        c["id"] = i
    obs = vlib.run_vh(ctx, "glob", cases, timeout=1800)
    drift = 0
    classes = {}
    for c in cases:
        o = obs.get(c["id"])
        if o is None:
            raise vlib.Infra("no observation for case %d" % c["id"])
        key = json.dumps([c["root"], c["hid"], c["files"], c["pkgs"], c["inc"], c["exc"]])
        nontrivial = bool(c["must"] or c["forbid"])
        bad = _judge_glob(c, o)
        ctx.count(key, nontrivial=nontrivial,
                  sample=dict(case={k: c[k] for k in ("root", "hid", "pkgs", "inc", "exc", "must", "opt")}, observed=o)
                  if len(c["must"]) > 2 and c["exc"] and not bad else None)
        for sig, info in bad:
            classes[sig] = classes.get(sig, 0) + 1
            ctx.violation(sig, dict(case=c, observed=o, path=info))
        if not bad:
            model = dict(res=c["algo"], panic=c["panic"])
            if (bool(o["panic"]) != model["panic"]) or (not o["panic"] and sorted(set(o["res"])) != model["res"]):
                drift += 1
                if drift <= 3:
                    ctx.drift("glob model differs from the code inside the allowed bounds: inc=%s exc=%s root=%s got=%s model=%s"
                              % (c["inc"], c["exc"], c["root"], o["res"], c["algo"]))
    if not ctx.samples and cases:
        c0 = cases[0]
        ctx.samples.append(dict(case={k: v for k, v in c0.items() if k not in ("_conv", "files", "forbid")}, observed=obs[c0["id"]]))
    ctx.traces_validated = len(cases)
    ctx.extra["violating_observations_by_signature"] = classes
    ctx.extra["model_drift_cases"] = drift
    if ctx.replay_only is None and not ctx.quick:
        ctx.traces_validated += _e2e_glob(ctx, cases, 40)
        _selftest(ctx, "glob", cases, lambda c, o: bool(_judge_glob(c, o)), "must")


# ------------------------------------------------------------------------------------------------ C22
CLAIM22 = dict(
    category="model_checking", design_ref="DESIGN.md §4 C22",
    text="PackageWalk.tla states which packages `//dir/...` must and may yield (directories under dir with a BUILD file, minus "
         "plz-out, hidden directories and blacklist entries matched on whole path components) and models plz.FindAllBuildFiles as "
         "written (names are paths from the repository root; `dir == basename || strings.HasPrefix(name, dir)`), plus the bounds the "
         "property puts on the completion walker query.containsPackage. TLC enumerates every tree of <=2 (quick) / <=3 (thorough) "
         "packages over 20 directories whose names share prefixes (out/output, exp/exper, hidden, plz-out, nested) x every "
         "non-hidden existing dir x blacklist x experimentaldir menus, checks the repaired model against the property and prints the "
         "bounds; each tree is materialised, the settings are written to a real .plzconfig and read back with core.ReadConfigFiles, and "
         "the real FindAllBuildFiles / containsPackage run on it; verdict: Must <= yielded <= May.",
    note="Weakest readings: packages under an experimentaldir entry, under a blacklist entry that names dir itself or a directory "
         "above it, or under a blacklist entry written as a path may or may not be yielded; dir itself hidden or plz-out is not "
         "generated; nested directories called plz-out are not generated. The completion walker is only required to say yes when "
         "the expansion is non-empty and no when every package is below a blacklisted name or plz-out.",
    technique="TLA+ spec PackageWalk.tla model-checked with TLC; TLC-enumerated trees x configurations with spec-computed bounds replayed into the real plz.FindAllBuildFiles")


def _judge_walk(c, o):
    out = []
    must, may = set(c["must"]), set(c["must"]) | set(c["opt"])
    diffs = {(d[0], d[1]): d[2] for d in c["diffs"]}
    forbid = {f[0]: f[1] for f in c["forbid"]}
    got = set(o["found"])
    for p in sorted(must - got):
        cls = diffs.get((p, "missing"))
        out.append(("C22 " + cls if cls else "C22 missing package-not-yielded", p))
    for p in sorted(got - may):
        cls = diffs.get((p, "extra"))
        if cls:
            out.append(("C22 " + cls, p))
        elif p in forbid:
            out.append(("C22 extra %s-package-yielded" % forbid[p], p))
        else:
            out.append(("C22 extra directory-not-a-package-under-dir", p))
    if "contains" in o:
        if c["cmust"] and not o["contains"]:
            out.append(("C22 completions misses-directory-with-yielded-package", c["dir"]))
        if o["contains"] and not c["cmay"]:
            out.append(("C22 completions offers-excluded-directory", c["dir"]))
    return out


def _e2e_walk(ctx, cases, n):
    """Thorough: `plz query alltargets //dir/...` of the real binary on sampled cases."""
    plz = vlib.build_plz()
    import random
    rnd = random.Random(ctx.seed)
    pool = [c for c in cases if c["must"] or c["diffs"]]
    rnd.shuffle(pool)
    home = os.path.join(ctx.scratch, "e2e-home")
    os.makedirs(home, exist_ok=True)
    done = 0
    for c in pool[:n]:
        repo = os.path.join(ctx.scratch, "e2e-walk-%d" % done)
        os.makedirs(repo)
        cfg = "[cache]\ndir = %s\n[parse]\n" % os.path.join(ctx.scratch, "e2e-cache")
        cfg += "".join("blacklistdirs = %s\n" % b for b in c["bl"]) + "".join("experimentaldir = %s\n" % x for x in c["ex"])
        with open(os.path.join(repo, ".plzconfig"), "w") as f:
            f.write(cfg)
        for p in c["pkgs"]:
            os.makedirs(os.path.join(repo, p), exist_ok=True)
            with open(os.path.join(repo, p, "BUILD"), "w") as f:
                f.write("filegroup(name = 't')\n")
        p = vlib.sh([plz, "query", "alltargets", "//%s/..." % c["dir"] if c["dir"] else "//...", "-p", "-v", "0"],
                    cwd=repo, check=False, timeout=120,
                    env=dict(HOME=home, XDG_CACHE_HOME=os.path.join(home, ".cache"), XDG_CONFIG_HOME=os.path.join(home, ".config")))
        if p.returncode != 0:
            raise vlib.Infra("e2e walk: plz query alltargets failed rc=%d: %s" % (p.returncode, (p.stdout or "")[-800:]))
        got = sorted(l.strip()[2:].split(":")[0] for l in (p.stdout or "").splitlines() if l.strip().startswith("//"))
        o = dict(found=got)
        for sig, info in _judge_walk(c, o):
            ctx.violation(sig, dict(case=c, observed=o, path=info, via="plz query alltargets"))
        shutil.rmtree(repo, ignore_errors=True)
        done += 1
    ctx.extra["e2e_cases"] = done
    return done


@register("C22", claim=CLAIM22)
def run_c22(ctx):
    ctx.rule = ("one case = (set of package directories over 20 directories with prefix-sharing names, dir, blacklistdirs, "
                "experimentaldir, optionally one directory without a BUILD file that holds a sub-directory named BUILD), a state of PackageWalk.tla whose invariant checks the spec's consistency and prints the "
                "property-level bounds; each case is one real FindAllBuildFiles walk (and one containsPackage call) on the "
                "materialised tree with the settings read from a real .plzconfig; non-trivial = some package must be yielded "
                "or some package under dir is forbidden; distinct by the whole case")
    ctx.assumptions = [
        "blacklist entry that is a single name hides every directory of that name at any depth below dir (docs: node_modules)",
        "packages under experimentaldir, under a blacklist entry naming dir or a directory above it, or under a path-shaped blacklist entry: either way",
        "dir itself is never hidden nor plz-out; plz-out only at the repository root",
        "prefix argument of FindAllBuildFiles is \"\" as in findOriginalTask",
        "a directory named BUILD is not a BUILD file: the directory holding it is a package only if it also holds a BUILD file",
    ]
    if ctx.replay_only is not None:
        cases = [_conv_walk(d["case"]) for d in ctx.replay_only]
        _tlc(ctx, "PackageWalk", "MC_PackageWalk_sanity.cfg", workers=8)
    else:
        if not ctx.quick:
            vlib.tlc(ctx, "PackageWalk", "MC_PackageWalk_sanity.cfg", workers=8)
            # the model of the code before the `fix:` commit (Repaired = {}) must still exhibit the recorded flaw
            k = vlib.tlc(ctx, "PackageWalk", "MC_PackageWalk_known.cfg", workers=8, allow_violation=True)
            if k.invariant != "CodeModelConforms":
                raise vlib.Infra("MC_PackageWalk_known.cfg no longer violates CodeModelConforms (got %r)" % k.invariant)
            ctx.extra["known_flaw_cfg"] = "MC_PackageWalk_known.cfg: CodeModelConforms violated as expected (blacklist string-prefix, fixed in the code)"
        r = _tlc(ctx, "PackageWalk", "GEN_PackageWalk_quick.cfg" if ctx.quick else "GEN_PackageWalk_thorough.cfg",
                     workers=16, timeout=300 if ctx.quick else 3000)
        cases = [_conv_walk(c) for c in r.cases]
        ctx.exhaustive = True
    for i, c in enumerate(cases):
        c["id"] = i
    obs = vlib.run_vh(ctx, "pkgwalk", cases, timeout=1800)
    drift = 0
    classes = {}
    for c in cases:
        o = obs.get(c["id"])
        if o is None:
            raise vlib.Infra("no observation for case %d" % c["id"])
        key = json.dumps([c["pkgs"], c["dir"], c["bl"], c["ex"], c.get("bd", [])])
        bad = _judge_walk(c, o)
        ctx.count(key, nontrivial=bool(c["must"] or c["forbid"]),
                  sample=dict(case={k: c[k] for k in ("pkgs", "dir", "bl", "ex", "bd", "must", "opt")}, observed=o)
                  if c["bl"] and c["must"] and c["forbid"] and not bad else None)
        for sig, info in bad:
            classes[sig] = classes.get(sig, 0) + 1
            ctx.violation(sig, dict(case=c, observed=o, path=info))
        if not bad and (sorted(set(o["found"])) != c["algo"] or ("contains" in o and o["contains"] != c["calgo"])):
            drift += 1
            if drift <= 3:
                ctx.drift("walk model differs from the code inside the allowed bounds: pkgs=%s dir=%s bl=%s ex=%s got=%s/%s model=%s/%s"
                          % (c["pkgs"], c["dir"], c["bl"], c["ex"], o["found"], o.get("contains"), c["algo"], c["calgo"]))
    if not ctx.samples and cases:
        c0 = cases[0]
        ctx.samples.append(dict(case={k: v for k, v in c0.items() if k not in ("_conv", "files", "forbid")}, observed=obs[c0["id"]]))
    ctx.traces_validated = len(cases)
    ctx.extra["violating_observations_by_signature"] = classes
    ctx.extra["model_drift_cases"] = drift
    if ctx.replay_only is None and not ctx.quick:
        ctx.traces_validated += _e2e_walk(ctx, cases, 40)
        _selftest(ctx, "pkgwalk", cases, lambda c, o: bool(_judge_walk(c, o)), "must")
