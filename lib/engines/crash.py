"""C32: CrashBuild.tla + crash injection at every hook point of a real build, and sampled SIGKILLs (fault enumeration)."""
import json
import os
import random
import shutil
import signal
import subprocess
import time
from concurrent.futures import ThreadPoolExecutor

import e2e
import vlib
from engines import register

CLAIM = dict(
    category="fault_enumeration", design_ref="DESIGN.md §4 C32",
    text="CrashBuild.tla models one target's rebuild at the grain of its file operations (metadata remove/create/write, per-output remove/rename, per-output "
         "hash-attribute recording) with a crash between any two, and TLC checks that the next build's needsBuilding decision never trusts a partial state. "
         "Against the real binary: for every scenario (previous build or not, which outputs change, multi-output / directory / filegroup / cached targets) a full "
         "build first records the sequence of hook points it passes; then the build is re-run once per position with the process SIGKILLing itself there, followed "
         "by a normal build whose outputs must equal a from-scratch build's. Plus SIGKILL of the whole plz process group at sampled wall-clock instants, and the "
         "atomic write helper fs.WriteFile crashed at each of its steps (destination is the old or the complete new content).",
    note="Crash = SIGKILL (data already written is visible; no power-loss model); crash builds run with -n 1 so positions are well defined; "
         "hook points are guarded one-liners, the verdict (next build == clean build) is hook-free.",
    technique="TLA+ spec CrashBuild.tla model-checked with TLC; crash injected at every hook point of the real build + sampled SIGKILL, next build compared with a clean build")

# scenario menu: BUILD text (formatted with the log path), files before, files after the edit, requested target
TWO = '''genrule(
    name = "t1",
    srcs = ["f1.txt", "f2.txt"],
    outs = ["t1.a", "t1.b"],
    cmd = "echo 'S //p:t1' >> %(log)s; sleep 0.03; cat $PKG_DIR/f1.txt > t1.a; sleep 0.03; cat $PKG_DIR/f2.txt > t1.b",
)
genrule(
    name = "t2",
    srcs = [":t1"],
    outs = ["t2.out"],
    cmd = "echo 'S //p:t2' >> %(log)s; sleep 0.03; cat $SRCS > $OUT",
)
'''
DIRS = '''genrule(
    name = "t1",
    srcs = ["f1.txt", "f2.txt"],
    outs = ["t1.dir"],
    cmd = "echo 'S //p:t1' >> %(log)s; mkdir $OUT; sleep 0.03; cat $PKG_DIR/f1.txt > $OUT/x; cat $PKG_DIR/f2.txt > $OUT/y",
)
filegroup(
    name = "fg",
    srcs = ["f1.txt", ":t1"],
)
genrule(
    name = "t2",
    srcs = [":fg"],
    outs = ["t2.out"],
    cmd = "echo 'S //p:t2' >> %(log)s; for s in $SRCS; do if [ -d $s ]; then cat $s/*; else cat $s; fi; done > $OUT",
)
text_file(
    name = "tx",
    out = "tx.txt",
    content = "hello",
)
genrule(
    name = "t3",
    srcs = [":t2", ":tx"],
    outs = ["t3.out"],
    cmd = "echo 'S //p:t3' >> %(log)s; cat $SRCS > $OUT",
)
'''
OPT = '''genrule(
    name = "t1",
    srcs = ["f1.txt", "f2.txt"],
    outs = ["t1.a"],
    optional_outs = ["t1.opt"],
    binary = True,
    cmd = "echo 'S //p:t1' >> %(log)s; sleep 0.03; cat $PKG_DIR/f1.txt > t1.a; cat $PKG_DIR/f2.txt > t1.opt",
)
genrule(
    name = "t2",
    srcs = [":t1"],
    outs = ["t2.out"],
    cmd = "echo 'S //p:t2' >> %(log)s; cat $SRCS > $OUT",
)
'''
SCENARIOS = [
    dict(name="two-outs-first-changes", build=TWO, before=dict(f1="a0", f2="b0"), after=dict(f1="a1", f2="b0"), req="t2", outs=["t1.a", "t1.b", "t2.out"]),
    dict(name="two-outs-both-change", build=TWO, before=dict(f1="a0", f2="b0"), after=dict(f1="a1", f2="b1"), req="t2", outs=["t1.a", "t1.b", "t2.out"]),
    dict(name="two-outs-second-changes", build=TWO, before=dict(f1="a0", f2="b0"), after=dict(f1="a0", f2="b1"), req="t2", outs=["t1.a", "t1.b", "t2.out"]),
    dict(name="two-outs-from-empty", build=TWO, before=None, after=dict(f1="a1", f2="b1"), req="t2", outs=["t1.a", "t1.b", "t2.out"]),
    dict(name="dir-filegroup-textfile", build=DIRS, before=dict(f1="a0", f2="b0"), after=dict(f1="a1", f2="b0"), req="t3",
         outs=["t1.dir", "f1.txt", "t2.out", "tx.txt", "t3.out"]),
    dict(name="optional-out-and-binary", build=OPT, before=dict(f1="a0", f2="b0"), after=dict(f1="a1", f2="b1"), req="t2",
         outs=["../../bin/p/t1.a", "../../bin/p/t1.opt", "t2.out"]),
    dict(name="dir-filegroup-from-empty", build=DIRS, before=None, after=dict(f1="a1", f2="b1"), req="t3",
         outs=["t1.dir", "f1.txt", "t2.out", "tx.txt", "t3.out"]),
]


class Case:
    def __init__(self, ctx, tag, sc, cache):
        self.base = os.path.join(ctx.scratch, tag)
        os.makedirs(self.base, exist_ok=True)
        self.log = os.path.join(self.base, "log")
        self.repo = e2e.Repo(os.path.join(self.base, "repo"), self.log, cache_dir=os.path.join(self.base, "cache") if cache else None)
        self.sc = sc
        with open(os.path.join(self.repo.root, "p", "BUILD"), "w") as f:
            f.write(sc["build"] % dict(log=self.log))

    def files(self, d):
        for k, v in d.items():
            self.repo.write_file(k, v)

    def build(self, env=None, threads=1, timeout=120):
        return self.repo.plz(["build", "//p:" + self.sc["req"]], threads=threads, env=env, timeout=timeout)

    def snapshot(self):
        gen = os.path.join(self.repo.root, "plz-out", "gen", "p")
        return {o: e2e.snap(os.path.join(gen, o)) for o in self.sc["outs"]}

    def prepare(self):
        """Brings the repository to the state right before the build under test."""
        if self.sc["before"] is not None:
            self.files(self.sc["before"])
            rc, out, _, _ = self.build()
            if rc != 0:
                raise vlib.Infra("initial build failed: " + out[-800:])
        self.files(self.sc["after"])

    def close(self):
        shutil.rmtree(self.base, ignore_errors=True)
        shutil.rmtree(self.base + ".home", ignore_errors=True)


_clean = {}


def clean_snapshot(ctx, sc, reverted=False):
    key = (sc["name"], reverted)
    if key not in _clean:
        c = Case(ctx, "clean-%s-%s" % (sc["name"], reverted), sc, False)
        c.files(sc["before"] if reverted else sc["after"])
        rc, out, _, _ = c.build()
        if rc != 0:
            raise vlib.Infra("clean build failed: " + out[-800:])
        _clean[key] = c.snapshot()
        c.close()
    return _clean[key]


def points_of(ctx, sc, cache):
    c = Case(ctx, "points-%s-%s" % (sc["name"], cache), sc, cache)
    c.prepare()
    pf = os.path.join(c.base, "points")
    rc, out, _, _ = c.build(env={"VERIF_POINTS": pf})
    if rc != 0:
        raise vlib.Infra("reference build failed: " + out[-800:])
    pts = open(pf).read().split() if os.path.exists(pf) else []
    c.close()
    return pts


def crash_at(ctx, sc, cache, n, point, want, revert=False):
    c = Case(ctx, "crash-%s-%s-%d-%s" % (sc["name"], cache, n, revert), sc, cache)
    try:
        c.prepare()
        rc, out, _, _ = c.build(env={"VERIF_CRASH_AT": str(n), "VERIF_CRASH_NAME": ""})
        if revert:
            c.files(sc["before"])      # the edit is undone after the crash: the next build sees the old tree again
        rc2, out2, started, _ = c.build(threads=None)
        res = dict(scenario=sc["name"], cache=cache, crashAt=n, point=point, crashRc=rc, nextRc=rc2, reran=started, revert=revert)
        if rc2 != 0:
            res["violation"] = "C32 build-after-crash-fails point=%s" % point
            res["output"] = out2[-1200:]
            return res
        snap = c.snapshot()
        if snap != want:
            bad = sorted(o for o in snap if snap[o] != want[o])
            res["violation"] = "C32 stale-or-partial-output-trusted-after-crash point=%s%s" % (point, " edit-reverted" if revert else "")
            res["differs"] = {o: dict(got=snap[o], want=want[o]) for o in bad}
        return res
    finally:
        c.close()


def sigkill_at(ctx, sc, cache, idx, delay, want):
    c = Case(ctx, "kill-%s-%s-%d" % (sc["name"], cache, idx), sc, cache)
    try:
        c.prepare()
        cmd = [vlib.build_plz(), "-p", "-v", "1", "-n", "2", "build", "//p:" + sc["req"]]
        p = subprocess.Popen(cmd, cwd=c.repo.root, env=c.repo.env(), stdout=subprocess.DEVNULL, stderr=subprocess.DEVNULL, start_new_session=True)
        time.sleep(delay)
        try:
            os.killpg(p.pid, signal.SIGKILL)
        except ProcessLookupError:
            pass
        p.wait()
        rc2, out2, started, _ = c.build(threads=None)
        res = dict(scenario=sc["name"], cache=cache, killAfterS=round(delay, 3), killedRc=p.returncode, nextRc=rc2, reran=started)
        if rc2 != 0:
            res["violation"] = "C32 build-after-sigkill-fails"
            res["output"] = out2[-1200:]
        else:
            snap = c.snapshot()
            if snap != want:
                res["violation"] = "C32 stale-or-partial-output-trusted-after-sigkill"
                res["differs"] = {o: dict(got=snap[o], want=want[o]) for o in snap if snap[o] != want[o]}
        return res
    finally:
        c.close()


@register("C32", claim=CLAIM)
def run(ctx):
    ctx.rule = ("case = scenario (multi-output / directory+filegroup+text_file targets; with or without a previous build; which outputs change) x dir cache on/off "
                "x crash position (every hook point a full build passes, -n 1) or sampled SIGKILL instant; non-trivial = the crash happens inside the build "
                "step; distinct by scenario + cache + position")
    vlib.build_plz()
    r = vlib.tlc(ctx, "CrashBuild", "MC_CrashBuild.cfg")
    ctx.extra["model_crash_states"] = len(r.cases)
    byname = {s["name"]: s for s in SCENARIOS}
    if ctx.replay_only is not None:
        todo = [(byname[d["scenario"]], d["cache"], d.get("crashAt"), d.get("point"), d.get("killAfterS"), d.get("revert", False)) for d in ctx.replay_only]
    else:
        todo = []
        scs = SCENARIOS if not ctx.quick else [SCENARIOS[0], SCENARIOS[2], SCENARIOS[3], SCENARIOS[4], SCENARIOS[5]]
        for sc in scs:
            for cache in ([False] if ctx.quick else [False, True]):
                pts = points_of(ctx, sc, cache)
                for n, pt in enumerate(pts, 1):
                    todo.append((sc, cache, n, pt, None, False))
                    if sc["before"] is not None and pt.startswith("build.") and (not ctx.quick or sc["name"].startswith("two-outs")):
                        todo.append((sc, cache, n, pt, None, True))
                rng = random.Random(ctx.seed * 31 + len(todo))
                for k in range(6 if ctx.quick else 40):
                    todo.append((sc, cache, None, None, rng.uniform(0.02, 0.45), False))
    for name, rev in {(t[0]["name"], t[5]) for t in todo}:
        clean_snapshot(ctx, byname[name], rev)
    with ThreadPoolExecutor(max_workers=12) as ex:
        futs = []
        for i, (sc, cache, n, pt, delay, revert) in enumerate(todo):
            want = clean_snapshot(ctx, sc, revert)
            if n is not None:
                futs.append(ex.submit(crash_at, ctx, sc, cache, n, pt, want, revert))
            else:
                futs.append(ex.submit(sigkill_at, ctx, sc, cache, i, delay, want))
        results = [f.result() for f in futs]
    for res in results:
        key = json.dumps([res["scenario"], res["cache"], res.get("crashAt"), res.get("killAfterS"), res.get("revert")])
        nt = (res.get("point") or "").startswith("build.") or res.get("killAfterS") is not None
        ctx.count(key, nontrivial=nt, sample={k: v for k, v in res.items() if k != "output"} if res.get("point") == "build.moveOutput.moved" else None)
        ctx.traces_validated += 1
        if "violation" in res:
            ctx.violation(res["violation"], res)
    # fs.WriteFile crashed at each of its steps (child processes of vh)
    obs = vlib.run_vh(ctx, "writefile-crash", [dict(id=0)])
    for o in obs.values():
        for step in o["steps"]:
            ctx.count("writefile:" + step["point"], nontrivial=True, sample=step if step["crashAt"] == 2 else None)
            ctx.traces_validated += 1
            if step["dest"] not in ("OLD", "NEW-COMPLETE", "ABSENT"):
                ctx.violation("C32 fs.WriteFile leaves-partial-destination point=%s" % step["point"], step)
    ctx.exhaustive = ctx.replay_only is None
