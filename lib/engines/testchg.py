"""C11 (test result reuse) and C24 (change detection): TestReuse.tla / Changes.tla, G->I end to end against the real plz binary.

C11  TLC-generated edit / `plz test` histories are replayed in a scratch repository of gentest targets; per invocation
     the exit status, the per-target outcome (test_results.xml) and the set of test commands that really ran (action
     log outside the repository) are compared with the spec's property-level expectation (Fresh outcome, reuse only
     where a passing run on exactly the current runtime inputs exists in the REAL execution history); the spec's Fresh
     is itself cross-checked against a real fresh run (clean copy, empty plz-out, no cache).
C24  TLC-generated before/after repositories with the spec's Direct / Affected sets: every case goes through
     query.Changes / query.DiffGraphs in-process (harness/changes.go, graphs parsed by the real interpreter), a sample is
     rendered into scratch repositories (with a real git history for --since) and `plz query changes` is asked in both modes.
"""
import hashlib
import json
import os
import random
import shutil
import subprocess
import threading
import xml.etree.ElementTree as ET
from concurrent.futures import ThreadPoolExecutor

import e2e
import vlib
from engines import register

PKG = "p"


class TRepo(e2e.Repo):
    """e2e.Repo (HOME isolation, explicit empty [cache] dir, action log outside the repository, plz runner) with
    free-form file rendering instead of the Incremental.tla rendering."""

    def __init__(self, root, logpath, **kw):
        super().__init__(root, logpath, **kw)
        self.files = {}

    def write(self, rel, content, inplace=True, mode=None):
        p = os.path.join(self.root, rel)
        os.makedirs(os.path.dirname(p), exist_ok=True)
        if self.files.get(rel) == content and os.path.exists(p):
            return
        if inplace or not os.path.exists(p):
            with open(p, "w") as fh:
                fh.write(content)
        else:
            with open(p + ".new", "w") as fh:
                fh.write(content)
            os.rename(p + ".new", p)
        if mode is not None:
            os.chmod(p, mode)
        self.files[rel] = content

    def remove(self, rel):
        p = os.path.join(self.root, rel)
        if os.path.isdir(p):
            shutil.rmtree(p)
        elif os.path.exists(p):
            os.remove(p)
        for k in [k for k in self.files if k == rel or k.startswith(rel + "/")]:
            del self.files[k]

    def sync(self, want):
        """Makes the working tree (outside plz-out) equal to `want` (rel path -> content)."""
        for rel in sorted(set(self.files) - set(want)):
            self.remove(rel)
            d = os.path.dirname(os.path.join(self.root, rel))
            while d != self.root and os.path.isdir(d) and not os.listdir(d):
                os.rmdir(d)
                d = os.path.dirname(d)
        for rel, c in sorted(want.items()):
            self.write(rel, c)

    def destroy(self):
        shutil.rmtree(self.root, ignore_errors=True)
        shutil.rmtree(self.home, ignore_errors=True)


# ======================================================================================================== C11
C11_PATH = {"d1": "p/d1.txt", "d2": "p/d2.txt", "ga": "p/ga.out", "gb": "p/gb.out", "ddx": "p/dd/x", "ddy": "p/dd/y",
            "bin": "t2.bin"}
C11_DATA = {"d1": '"d1.txt"', "d2": '"d2.txt"', "dd": '"dd"', "g": '":g"'}


def c11_tree(st, log):
    """Model state of TestReuse.tla -> files of the scratch repository."""
    tree = {"p/%s.txt" % f: c for f, c in st["file"].items()}
    tree["p/dd/" + st["ddn"]] = "ok"
    b = ['genrule(\n    name = "g",\n    srcs = ["s.txt"],\n    outs = ["%s.out"],\n    cmd = "echo \'S //p:g\' >> %s; cat $SRCS > $OUT",\n)\n'
         % (st["gout"], log)]
    for i, d in enumerate(st["defs"]):
        t = i + 1
        # every path the command reads must contain "ok"; with test arguments (plz sets $TESTS and appends them to the
        # command, hence the trailing `:`) only the named ones are checked: a partial run of the test
        reads = " ".join("%s=%s" % (r, C11_PATH[r]) for r in sorted(d["reads"]))
        cmd = ("echo 'T //p:t%d' >> %s; for e in %s; do n=${e%%%%=*}; f=${e#*=}; case \" ${TESTS:-} \" in \"  \"|*\" $n \"*) "
               "[ \"$(cat $f 2>/dev/null)\" = ok ] || exit 1;; esac; done; :" % (t, log, reads))
        lines = ['    name = "t%d",' % t]
        if t == 2:
            lines += ['    srcs = ["b.txt"],', '    outs = ["t2.bin"],',
                      '    cmd = "echo \'S //p:t2\' >> %s; cat $SRCS > $OUT",' % log]
        lines += ['    test_cmd = %s,' % json.dumps(cmd),
                  '    data = [%s],' % ", ".join(C11_DATA[x] for x in ("d1", "d2", "dd", "g") if x in d["data"])]
        if d["rdeps"]:
            lines.append('    runtime_deps = [":g"],')
        lines.append('    no_test_output = %s,' % ("True" if d["noout"] else "False"))
        b.append("gentest(\n%s\n)\n" % "\n".join(lines))
    tree["p/BUILD"] = "\n".join(b)
    return tree


def c11_apply(st, step):
    act = step["act"]
    if act == "EditFile":
        st["file"][step["f"]] = step["c"]
    elif act == "SwapData":
        st["file"]["d1"], st["file"]["d2"] = st["file"]["d2"], st["file"]["d1"]
    elif act == "RenameGOut":
        st["gout"] = step["to"]
    elif act == "RenameDirEntry":
        st["ddn"] = step["to"]
    elif act == "EditDef":
        st["defs"][step["t"] - 1] = step["def"]
    else:
        raise vlib.Infra("unknown step %s" % act)


def c11_describe(step):
    a = step["act"]
    if a == "EditFile":
        return "edit %s=%s" % (step["f"], step["c"])
    if a == "EditDef":
        d = step["def"]
        return "def t%d data=%s rdeps=%s reads=%s noout=%s" % (step["t"], sorted(d["data"]), sorted(d["rdeps"]), sorted(d["reads"]), d["noout"])
    if a in ("RenameGOut", "RenameDirEntry"):
        return "%s -> %s" % (a, step["to"])
    return a


def run_tests(repo, req, args=()):
    """`plz test` of the requested tests (+ test arguments); returns dict(rc, outcome{t}, cached{t}, ran[t...], out)."""
    xml = os.path.join(repo.root, "plz-out", "log", "test_results.xml")
    if os.path.exists(xml):
        os.remove(xml)
    rc, outp, _, lines = repo.plz(["test"] + ["//%s:t%d" % (PKG, t) for t in req] + list(args), timeout=300)
    if rc == -9:
        raise vlib.Infra("plz test timed out (machine overloaded?):\n%s" % outp[-1000:])
    ran = [int(l.split(":t")[1]) for l in lines if l.startswith("T ")]
    outcome, cached = {}, {}
    if os.path.exists(xml):
        try:
            root = ET.parse(xml).getroot()
        except ET.ParseError as ex:
            raise vlib.Infra("cannot parse %s: %s" % (xml, ex))
        for s in root.iter("testsuite"):
            name = s.get("name", "")
            if not (name.startswith("t") and name[1:].isdigit()):
                continue
            t = int(name[1:])
            bad = int(s.get("failures") or 0) + int(s.get("errors") or 0)
            outcome[t] = "pass" if bad == 0 and int(s.get("tests") or 0) > 0 else "fail"
            cached[t] = any(p.get("name") == "cached" and p.get("value") == "true" for p in s.iter("property"))
    return dict(rc=rc, outcome=outcome, cached=cached, ran=ran, out=outp[-1500:])


_fresh_memo = {}
_fresh_lock = threading.Lock()


def fresh_run(ctx, st, req, args=()):
    """Outcome of a fresh `plz test` (clean copy of the tree, empty plz-out, no cache); memoised per tree and request."""
    key = hashlib.sha1(json.dumps([c11_tree(st, "@LOG@"), sorted(req), list(args)], sort_keys=True).encode()).hexdigest()
    with _fresh_lock:
        if key in _fresh_memo:
            return _fresh_memo[key]
    d = os.path.join(ctx.scratch, "fresh-%s-%d" % (key[:16], threading.get_ident()))
    r = TRepo(d, d + ".log")
    r.sync(c11_tree(st, d + ".log"))
    res = run_tests(r, req, args)
    r.destroy()
    if os.path.exists(d + ".log"):
        os.remove(d + ".log")
    with _fresh_lock:
        _fresh_memo[key] = res
    return res


def path_kind(p):
    return "data-target-output" if p[0] == "g" else "data-directory-entry" if p.startswith("dd") else "binary" if p == "bin" else "data-file"


def diff_inputs(old, new):
    """How the runtime inputs (spec terms) of a test differ between two invocations: a list of changed aspects.
    A reuse across several simultaneous changes is reported once per aspect, so that it is explained by recorded
    findings only if EVERY changed aspect is one the code is known to ignore."""
    cls = []
    if sorted(old["cmd"]) != sorted(new["cmd"]):
        cls.append("test-command")
    if old["noout"] != new["noout"]:
        cls.append("no_test_output")
    fo = {e["p"]: e["c"] for e in old["files"]}
    fn = {e["p"]: e["c"] for e in new["files"]}
    for p in sorted(set(fo) & set(fn)):
        if fo[p] != fn[p]:
            cls.append("runtime-file-content:" + path_kind(p))
    for kind in ("data-target-output", "data-directory-entry", "binary", "data-file"):
        gone = sorted(fo[p] for p in set(fo) - set(fn) if path_kind(p) == kind)
        came = sorted(fn[p] for p in set(fn) - set(fo) if path_kind(p) == kind)
        if gone and gone == came:
            cls.append("runtime-file-renamed-same-content:" + kind)
        elif gone or came:
            cls.append("runtime-file-set:" + kind)
    return sorted(set(cls)) or ["nothing"]


def c11_replay(ctx, idx, beh, opts):
    base = os.path.join(ctx.scratch, "h%d" % idx)
    os.makedirs(base, exist_ok=True)
    log = os.path.join(base, "log")
    repo = TRepo(os.path.join(base, "repo"), log)
    st = dict(file={f: "ok" for f in ("d1", "d2", "s", "b")}, gout="ga", ddn="x", defs=[dict(d) for d in beh["init"]["defs"]])
    repo.sync(c11_tree(st, log))
    viols, trace, tests, drift = [], [], 0, 0
    runs = {1: [], 2: []}       # real executions: (step index, inputs term, real outcome, test arguments)
    for si, step in enumerate(beh["steps"]):
        act = step["act"]
        if act == "DeletePlzOut":
            repo.delete_plz_out()
            trace.append("rm plz-out")
            continue
        if act != "Test":
            c11_apply(st, step)
            repo.sync(c11_tree(st, log))
            trace.append(c11_describe(step))
            continue
        tests += 1
        req = sorted(step["req"])
        expect = e2e.by_target(step["expect"])
        inputs = e2e.by_target(step["inputs"])
        args = sorted(step.get("args", []))
        obs = run_tests(repo, req, args)
        trace.append("test %s%s -> rc=%d outcome=%s ran=%s cached=%s" % (req, " args=%s" % args if args else "", obs["rc"], obs["outcome"], obs["ran"],
                                                                      sorted(t for t in obs["cached"] if obs["cached"][t])))
        detail = dict(behaviour=beh, step=si, trace=list(trace))
        # the oracle: a fresh run of the same tree, which the spec's Fresh must predict
        fr = fresh_run(ctx, st, req, args)
        for t in req:
            if fr["outcome"].get(t) != expect[t]:
                raise vlib.Infra("fresh run disagrees with the spec's Fresh for t%d (spec/harness error): spec %s, fresh run %s rc=%s\n%s\n%s"
                                 % (t, expect[t], fr["outcome"].get(t), fr["rc"], "\n".join(trace), fr["out"]))
        if (fr["rc"] == 0) != all(expect[t] == "pass" for t in req) or sorted(set(fr["ran"])) != req:
            raise vlib.Infra("fresh run: exit status %s / executed %s inconsistent with outcomes %s\n%s" % (fr["rc"], fr["ran"], expect, fr["out"]))
        if any(t not in obs["outcome"] for t in req):
            viols.append(("C11 incremental-test-invocation-reports-no-result-where-fresh-run-does", dict(detail, output=obs["out"])))
            break
        if len(obs["ran"]) != len(set(obs["ran"])):
            viols.append(("C11 test-command-ran-twice-in-one-invocation", dict(detail, ran=obs["ran"])))
        for t in req:
            executed = t in obs["ran"]
            last = runs[t][-1] if runs[t] else None
            wrong = obs["outcome"][t] != expect[t]
            if executed:
                if wrong:
                    viols.append(("C11 executed-test-reports-%s-where-fresh-run-reports-%s" % (obs["outcome"][t], expect[t]),
                                  dict(detail, target=t, output=obs["out"])))
                runs[t].append((si, inputs[t], obs["outcome"][t], args))
                continue
            # not executed: the result was reused.  Allowed only if a passing run on exactly the current runtime inputs
            # (test command, binary, data files, runtime dependencies: spec term Inputs) really happened before.
            cur = dict(cmd=sorted(inputs[t]["cmd"]), files=sorted((e["p"], e["c"]) for e in inputs[t]["files"]))
            # ... by a FULL run: a run with test arguments executes only part of the test
            may = any(o == "pass" and not a and dict(cmd=sorted(i["cmd"]), files=sorted((e["p"], e["c"]) for e in i["files"])) == cur
                      for _, i, o, a in runs[t])
            if not wrong and may and expect[t] == "pass":
                continue
            if last is None:
                sigs = ["C11 result-reported-without-any-execution"]
            elif last[3]:
                sigs = ["C11 result-of-run-with-test-arguments-reused"]
            elif last[2] != "pass":
                sigs = ["C11 failing-result-reused"]
            else:
                sigs = ["C11 result-reused-across-change changed=%s" % c for c in diff_inputs(last[1], inputs[t])]
            for sig in sigs:
                viols.append((sig, dict(detail, target=t, reported=obs["outcome"][t], fresh=expect[t], outcome_differs=wrong,
                                        changed_since_reused_run=sigs, passing_run_on_current_inputs_exists=may)))
        exp_rc0 = all(expect[t] == "pass" for t in req)
        if (obs["rc"] == 0) != exp_rc0 and not viols:
            viols.append(("C11 exit-status-%d-where-fresh-run-%s" % (obs["rc"], "passes" if exp_rc0 else "fails"),
                          dict(detail, output=obs["out"])))
        if sorted(set(obs["ran"])) != sorted(step["algoRan"]):
            drift += 1
        if viols:
            break
    shutil.rmtree(base, ignore_errors=True)
    return viols, dict(tests=tests, drift=drift, trace=trace)


def c11_nontrivial(beh):
    """Non-trivial: an edit or plz-out deletion between two test invocations."""
    seen = edit_after = False
    for s in beh["steps"]:
        if s["act"] == "Test":
            if edit_after:
                return True
            seen = True
        elif seen:
            edit_after = True
    return False


def kinds_of(beh):
    ks = []
    for s in beh["steps"]:
        a = s["act"]
        if a == "EditFile":
            a += ":" + s["f"]
        if a == "Test" and s.get("args"):
            a = "TestArgs"
        ks.append(a)
    return tuple(ks)


def stratified(items, keyfn, n, rng):
    """Seeded sample of n items, round-robin over the classes of keyfn (so that rare classes are represented)."""
    groups = {}
    for it in items:
        groups.setdefault(keyfn(it), []).append(it)
    keys = sorted(groups, key=repr)
    rng.shuffle(keys)
    for k in keys:
        rng.shuffle(groups[k])
    out = []
    while len(out) < n and keys:
        for k in list(keys):
            if groups[k]:
                out.append(groups[k].pop())
                if len(out) >= n:
                    break
            else:
                keys.remove(k)
    return out


def sample_size(default):
    """Development knob: VERIF_TESTCHG_SAMPLE=<n> caps the number of histories / cases replayed end to end."""
    v = os.environ.get("VERIF_TESTCHG_SAMPLE")
    return min(int(v), default) if v else default


def has_trap(beh):
    """The spec marks the invocations where a stored result of an earlier run WITH arguments would now give a wrong answer."""
    return any(s["act"] == "Test" and s.get("trap") for s in beh["steps"])


def c11_sample(behs, n, rng):
    """Stratified by step kinds, with a fifth of the sample reserved for the histories the spec marks as traps."""
    nt = [b for b in behs if c11_nontrivial(b)]
    traps = stratified([b for b in nt if has_trap(b)], kinds_of, n // 5, rng)
    keys = {json.dumps(b, sort_keys=True) for b in traps}
    return traps + stratified([b for b in nt if json.dumps(b, sort_keys=True) not in keys], kinds_of, n - len(traps), rng)


def uniq_sorted(behs):
    seen, out = set(), []
    for b in sorted(behs, key=lambda b: json.dumps(b, sort_keys=True)):
        k = json.dumps(b, sort_keys=True)
        if k not in seen:
            seen.add(k)
            out.append(b)
    return out


CLAIM11 = dict(
    category="model_checking", design_ref="DESIGN.md §4 C11",
    text="TestReuse.tla models a repository of two gentest targets (data files, a data directory, a data / runtime-dependency genrule, "
         "a built test binary) whose outcome is a spec function of the test command and the files present in the runtime directory, the "
         "reuse decision of test_step.go (stored RuntimeHash of the last passing run, target state) and edit histories (data / source / "
         "binary contents, data swap, renames of a dependency output and of a data-directory entry, test command, data list, runtime deps, "
         "no_test_output, plz-out deletion; invocations with and without test arguments, which make the command check only the named files). TLC checks that the algorithm on injective hashes satisfies C11 (reported = fresh outcome, "
         "reuse only with a passing FULL run on the current runtime inputs -- never the result of a run with test arguments --, failing results never reused) and that each recorded flaw of the "
         "real RuntimeHash is a counterexample; one history per distinct reachable state is replayed against the real plz binary: exit "
         "status, per-target outcome from test_results.xml and the executed test commands (action log) are compared with the spec's "
         "expectation, and the expectation with a real fresh run of the same tree.",
    note="Bounded: 2 tests, 4 files x 2 contents, <=2 (quick, 100 sampled) / <=3 (thorough, 1000 sampled) edits; at most one invocation with test arguments per history, sequential invocations, no cache "
         "configured, one run per test (no flakes / --num_runs); reuse is judged against the REAL execution history of the replay; trusted: "
         "the action log written by the generated test commands, test_results.xml as the per-target report, TLC, SHA collision freedom.",
    technique="TLA+ spec TestReuse.tla model-checked with TLC; TLC-generated edit/test histories replayed e2e into the real plz binary and compared with the spec's fresh outcome, itself cross-checked by a real fresh run")


@register("C11", claim=CLAIM11)
def run_c11(ctx):
    vlib.build_plz()
    ctx.rule = ("histories = one per distinct reachable state of TestReuse.tla ending in a test invocation at the edit bound (TLC BFS, VIEW without "
                "history); quick: seeded sample stratified by the sequence of step kinds; non-trivial = an edit or plz-out deletion between two "
                "test invocations; distinct by full history")
    ctx.assumptions += ["SHA collisions do not occur (hashes abstract and injective in the spec, DESIGN 2.7)",
                        "runtime inputs = test command, test binary, data files and runtime dependency outputs as path -> content (the statement's list); "
                        "no_test_output is not one of them, its effect is judged through the outcome clause only",
                        "a reuse is allowed iff a passing run on exactly the current runtime inputs really happened earlier in the replayed history",
                        "the fresh run (clean copy, empty plz-out, no cache) is the oracle; the spec's Fresh predicts it and a mismatch between the two is exit 2"]
    pool = ThreadPoolExecutor(max_workers=2)
    mc = []
    if ctx.replay_only is not None:
        behs = [d["behaviour"] for d in ctx.replay_only]
        total = len(behs)
    else:
        # design level, in the background: the algorithm on injective hashes satisfies C11 ...
        # (quick: the initial repository selected by the seed, as for the generation; thorough: all, one more edit)
        mc.append(pool.submit(vlib.tlc, ctx, "TestReuse", "MC_TestReuse_s%d.cfg" % (ctx.seed % 3 + 1) if ctx.quick else "MC_TestReuse_3.cfg",
                              workers=6, timeout=3000))
        if not ctx.quick:
            # ... the directory hash of the code (entry names not hashed: known finding), the two repaired flaws of RuntimeHash and
            # "results of runs with test arguments are stored" are each a counterexample of the model ...
            for cfg in ("MC_TestReuse_dirnames_known.cfg", "MC_TestReuse_paths_known.cfg", "MC_TestReuse_noout_known.cfg", "MC_TestReuse_args_flaw.cfg"):
                fl = vlib.tlc(ctx, "TestReuse", cfg, workers=4, allow_violation=True)
                ctx.extra["model_counterexample_" + cfg[13:-4]] = fl.invariant
            # ... and with the hashes as the current code has them C11 holds as long as no data-directory entry is renamed
            vlib.tlc(ctx, "TestReuse", "MC_TestReuse_code.cfg", workers=8, timeout=1500)
        if ctx.quick:
            r = vlib.tlc(ctx, "TestReuse", "GEN_TestReuse_2s%d.cfg" % (ctx.seed % 3 + 1), workers=8, timeout=600)
            behs = uniq_sorted(r.behaviours)
            total = len(behs)
            behs = c11_sample(behs, sample_size(100), random.Random(ctx.seed))
        else:
            r2 = vlib.tlc(ctx, "TestReuse", "GEN_TestReuse_2.cfg", workers=8, timeout=1500)
            r3 = vlib.tlc(ctx, "TestReuse", "GEN_TestReuse_3.cfg", workers=8, timeout=3000)
            b2, b3 = uniq_sorted(r2.behaviours), uniq_sorted(r3.behaviours)
            total = len(b2) + len(b3)
            rng = random.Random(ctx.seed)
            behs = c11_sample(b2, sample_size(500), rng) + c11_sample(b3, sample_size(500), rng)
    ctx.extra["histories_enumerated_by_tlc"] = total
    with ThreadPoolExecutor(max_workers=12) as ex:
        futs = [ex.submit(c11_replay, ctx, i, b, {}) for i, b in enumerate(behs)]
        results = [(behs[i], f.result()) for i, f in enumerate(futs)]
    drift = 0
    for beh, (viols, stt) in results:
        nt = c11_nontrivial(beh)
        ctx.count(json.dumps(beh, sort_keys=True), nontrivial=nt, sample=dict(trace=stt["trace"]) if nt and len(stt["trace"]) > 4 else None)
        ctx.traces_validated += stt["tests"]
        drift += stt["drift"]
        for sig, det in viols:
            ctx.violation(sig, det)
    for f in mc:
        f.result()
    pool.shutdown()
    if drift:
        ctx.drift("%d test invocation(s) executed a different set of test commands than the algorithm model predicted (judged by the property only)" % drift)
    ctx.exhaustive = False


# ======================================================================================================== C24
C24_PKG = {1: "p", 2: "p", 3: "p/q", 4: "p", 5: ""}
C24_FILE = {"f1": "p/f1.txt", "f2": "p/f2.txt", "e1": "p/d/e1.txt", "e2": "p/d/e2.txt", "g1": "p/q/g1.txt", "r1": "r1.txt"}
C24_ITEM = {"f1": "f1.txt", "f2": "f2.txt", "e1": "d/e1.txt", "D": "d", "g1": "g1.txt", "r1": "r1.txt"}


def c24_label(t):
    return "//%s:t%d" % (C24_PKG[t], t)


def c24_target(t, d, log):
    lab = c24_label(t)
    items = ['"%s"' % C24_ITEM[i] for i in sorted(d["files"])]
    deps = ['"%s"' % c24_label(x) for x in sorted(d["deps"])]
    extra = ""
    if d["req"]:
        extra += '    requires = ["k"],\n'
    if d["prov"]:
        extra += '    provides = {"k": "%s"},\n' % c24_label(d["prov"])
    extra += '    visibility = ["PUBLIC"],\n'
    if d["kind"] == "gen":
        cmd = ("echo 'S %s' >> %s; printf %s > $OUT; for s in $SRCS; do find $s -type f | sort | xargs cat >> $OUT; done"
               % (lab, log, d["cmd"]))
        return ('genrule(\n    name = "t%d",\n    srcs = [%s],\n    outs = ["t%d.out"],\n    cmd = %s,\n%s)\n'
                % (t, ", ".join(items + deps), t, json.dumps(cmd), extra))
    if d["kind"] == "fg":
        return 'filegroup(\n    name = "t%d",\n    srcs = [%s],\n%s)\n' % (t, ", ".join(items + deps), extra)
    if d["kind"] == "test":
        data = ['"%s"' % C24_ITEM[i] for i in sorted(d["data"])] + ['"%s"' % c24_label(x) for x in sorted(d["ddeps"])]
        return ('gentest(\n    name = "t%d",\n    test_cmd = "true",\n    data = [%s],\n    deps = [%s],\n    no_test_output = %s,\n%s)\n'
                % (t, ", ".join(data), ", ".join(deps), "True" if d["noout"] else "False", extra))
    raise vlib.Infra("unknown kind %s" % d["kind"])


def c24_tree(defs, changed, cfg, log):
    tree = {path: "v%d:%s\n" % (1 if f in changed else 0, f) for f, path in C24_FILE.items()}
    builds = {"": "", "p": "", "p/q": ""}
    for i, d in enumerate(defs):
        if d["present"]:
            builds[C24_PKG[i + 1]] += c24_target(i + 1, d, log) + "\n"
    for pk, text in builds.items():
        tree[os.path.join(pk, "BUILD")] = text
    tree[".gitignore"] = "plz-out\n"
    return tree


def c24_config(cfg):
    # a build-environment variable is part of the configuration hash (Configuration.Hash) and of every action's environment
    return "[buildenv]\nverif-marker = 1\n" if cfg else ""


def c24_outputs(repo, t, d):
    gen = os.path.join(repo.root, "plz-out", "gen", C24_PKG[t])
    if d["kind"] == "gen":
        return {"t%d.out" % t: e2e.snap(os.path.join(gen, "t%d.out" % t))}
    if d["kind"] == "fg":
        return {C24_ITEM[i]: e2e.snap(os.path.join(gen, C24_ITEM[i])) for i in sorted(d["files"])}
    return {}


def git(repo, *args):
    p = subprocess.run(["git", "-c", "user.name=verif", "-c", "user.email=verif@example.invalid", "-c", "commit.gpgsign=false",
                        "-c", "init.defaultBranch=main", "-c", "core.hooksPath=/dev/null"] + list(args),
                       cwd=repo.root, env=repo.env({"GIT_CONFIG_NOSYSTEM": "1"}), stdout=subprocess.PIPE, stderr=subprocess.STDOUT, text=True)
    if p.returncode != 0:
        raise vlib.Infra("git %s failed in %s:\n%s" % (" ".join(args), repo.root, p.stdout[-1500:]))
    return p.stdout


def query_changes(repo, args):
    rc, outp, _, _ = repo.plz(["query", "changes"] + args, timeout=300)
    if rc != 0:
        raise vlib.Infra("plz query changes %s failed (rc=%d) on a generated repository (harness/spec error?):\n%s" % (args, rc, outp[-2000:]))
    got = set()
    for line in outp.splitlines():
        line = line.strip()
        for t in C24_PKG:
            if line == c24_label(t):
                got.add(t)
    return got


def write_config(repo, cfg):
    base = "[build]\npath = /usr/local/bin:/usr/bin:/bin\n[cache]\ndir = \n"
    with open(os.path.join(repo.root, ".plzconfig"), "w") as f:
        f.write(base + c24_config(cfg))


def c24_why(case):
    w = case["why"]
    if isinstance(w, list):   # TLC prints a function with domain 1..n as an array
        return {i + 1: x for i, x in enumerate(w)}
    return {int(k): x for k, x in w.items()}


def c24_judge(case, mode, rep, really, trace, binding):
    """The property: Affected within Reported(level -1), Direct within Reported(level 0). Returns (drift, violations)."""
    affected, direct, why = set(case["affected"]), set(case["direct"]), c24_why(case)
    algo = case["algo"][mode]
    drift = 1 if rep[-1] != set(algo["all"]) or rep[0] != set(algo["zero"]) else 0
    viols = []
    for level, want in ((-1, affected), (0, direct)):
        for t in sorted(want - rep[level]):
            if level == -1 and t in direct and t not in rep[0]:
                continue    # already reported at level 0
            viols.append(("C24 not-reported why=%s mode=%s" % (why.get(t, "?"), mode),
                          dict(case=case, target=t, level=level, mode=mode, binding=binding, reported=sorted(rep[level]), expected=sorted(want),
                               really_rebuilt_or_changed=(t in really) if really is not None else None, trace=list(trace))))
    return drift, viols


def c24_inprocess(ctx, cases):
    """query.Changes / query.DiffGraphs on graphs parsed in-process by the real interpreter (harness/changes.go)."""
    hc, idx = [], {}
    for i, c in enumerate(cases):
        if c["cfg"]:
            continue    # a configuration change needs the real config loader: e2e only
        bt = c24_tree(c["before"], set(), False, "/dev/null")
        at = c24_tree(c["after"], set(c["files"]), False, "/dev/null")
        builds = lambda tree: {os.path.dirname(k): v for k, v in tree.items() if os.path.basename(k) == "BUILD"}
        files = [C24_FILE[f] for f in sorted(c["files"])] + sorted(k for k in at if os.path.basename(k) == "BUILD" and at[k] != bt[k])
        hc.append(dict(id=i, before=builds(bt), after=builds(at), files=files, modes=sorted(c["modes"]), levels=[-1, 0]))
        idx[i] = c
    obs = vlib.run_vh(ctx, "changes", hc)
    drift, viols, n = 0, [], 0
    for i, c in idx.items():
        o = obs.get(i)
        if o is None or o.get("error"):
            raise vlib.Infra("in-process parse/query of a generated case failed (harness/spec error): %s" % (o and o.get("error")))
        for mode in sorted(c["modes"]):
            rep = {}
            for level in (-1, 0):
                labels = o["reported"][mode][str(level)]
                rep[level] = {t for t in C24_PKG if c24_label(t) in labels}
            trace = ["in-process %s: level -1 -> %s, level 0 -> %s" % (mode, sorted(rep[-1]), sorted(rep[0]))]
            d, v = c24_judge(c, mode, rep, None, trace, "in-process")
            drift += d
            viols += v
            n += 2
    return drift, viols, n


def c24_replay(ctx, idx, case, opts):
    base = os.path.join(ctx.scratch, "c%d" % idx)
    os.makedirs(base, exist_ok=True)
    log = os.path.join(base, "log")
    repo = TRepo(os.path.join(base, "repo"), log)
    before, after, changed = case["before"], case["after"], set(case["files"])
    affected = set(case["affected"])
    present_b = [i + 1 for i, d in enumerate(before) if d["present"]]
    present_a = [i + 1 for i, d in enumerate(after) if d["present"]]
    trace, viols, queries, drift = [], [], 0, 0
    # ---- before
    write_config(repo, False)
    repo.sync(c24_tree(before, set(), False, log))
    since = "since" in case["modes"]
    if since:
        git(repo, "init", "-q", ".")
        git(repo, "add", "-A")
        git(repo, "commit", "-q", "-m", "before")
    really = None
    if opts.get("crosscheck", True):
        rc, outp, _, _ = repo.plz(["build"] + [c24_label(t) for t in present_b])
        if rc != 0:
            raise vlib.Infra("build of the generated `before` repository fails (harness/spec error):\n%s" % outp[-2000:])
        snap_b = {t: c24_outputs(repo, t, before[t - 1]) for t in present_b}
    # ---- after
    write_config(repo, case["cfg"])
    repo.sync(c24_tree(after, changed, case["cfg"], log))
    edit = "files=%s" % sorted(changed)
    for i, (b, a) in enumerate(zip(before, after)):
        if b != a:
            edit += " t%d:%s" % (i + 1, ",".join(k for k in sorted(a) if a[k] != b[k]))
    if case["cfg"]:
        edit += " config"
    trace.append("edit " + edit)
    if since:
        git(repo, "add", "-A")
        git(repo, "commit", "-q", "-m", "after")
    if opts.get("crosscheck", True):
        rc, outp, started, _ = repo.plz(["build"] + [c24_label(t) for t in present_a])
        if rc != 0:
            raise vlib.Infra("build of the generated `after` repository fails (harness/spec error):\n%s\n%s" % (edit, outp[-2000:]))
        really = {t for t in present_a if c24_label(t) in started}
        really |= {t for t in present_a if t in snap_b and c24_outputs(repo, t, after[t - 1]) != snap_b[t]}
        trace.append("incremental build: really rebuilt or changed = %s" % sorted(really))
        if case["cfg"] and not {t for t in present_a if after[t - 1]["kind"] == "gen"} <= really:
            raise vlib.Infra("the rendered configuration change did not re-execute every genrule (harness error): %s" % sorted(really))
        if not really <= affected:
            raise vlib.Infra("the spec's Affected %s misses target(s) that really re-executed or changed %s (spec/harness error)\n%s"
                             % (sorted(affected), sorted(really), edit))
    # ---- queries
    for mode in sorted(case["modes"]):
        if mode == "files":
            fl = [C24_FILE[f] for f in sorted(changed)]
            rep = {-1: query_changes(repo, ["--level", "-1"] + fl), 0: query_changes(repo, ["--level", "0"] + fl)}
        else:
            rep = {}
            for lvl in (-1, 0):
                rep[lvl] = query_changes(repo, ["--since", "HEAD~1", "--level", str(lvl)])
                # `--since` checks the old revision out and back; where it left the repository is not C24's subject, but the
                # next query needs the branch: note it, put it back, go on
                head = git(repo, "rev-parse", "--abbrev-ref", "HEAD").strip()
                if head != "main":
                    print("NOTE: plz query changes --since left HEAD at %r (exit status 0); restored" % head, flush=True)
                    trace.append("query left HEAD at %r" % head)
                    git(repo, "checkout", "-q", "main")
            st = git(repo, "status", "--porcelain")
            if st.strip():
                raise vlib.Infra("working tree not clean after plz query changes --since:\n%s" % st)
        queries += 2
        trace.append("%s: level -1 -> %s, level 0 -> %s" % (mode, sorted(rep[-1]), sorted(rep[0])))
        d, v = c24_judge(case, mode, rep, really, trace, "e2e")
        drift += d
        viols += v
    shutil.rmtree(base, ignore_errors=True)
    return viols, dict(queries=queries, drift=drift, trace=trace)


def c24_key(case):
    return json.dumps([case["before"], case["after"], sorted(case["files"]), case["cfg"]], sort_keys=True)


def c24_class(case):
    why = case["why"]
    vals = why if isinstance(why, list) else list(why.values())
    edits = sorted({w for w in vals if w not in ("dependent",)})
    return (len(case["files"]), tuple(edits), tuple(sorted(case["modes"])))


CLAIM24 = dict(
    category="model_checking", design_ref="DESIGN.md §4 C24",
    text="Changes.tla models before/after pairs of a five-target repository over three packages (root, p, nested p/q, a plain sub-directory used "
         "as a directory source, data files and data labels on a gentest, filegroups, require/provide) -- changed file sets, one-field definition "
         "edits, a new target, a configuration change -- with the property-level sets Direct and Affected and the algorithm of changes.go "
         "(closest-package ownership, HasSource, RuleHash diff, provide-resolved reverse dependencies up to a level); TLC checks that the algorithm "
         "never misses and that each recorded flaw is a counterexample, and prints every case; every case is parsed by the real interpreter into "
         "two real build graphs and put to query.Changes / query.DiffGraphs in-process, and a stratified sample is rendered into a scratch "
         "repository with a real git history where `plz query changes` is run with a file list and with --since, at level -1 and 0; a target of "
         "Affected (level -1) or Direct (level 0) that is not printed is a violation; Affected itself is cross-checked against the targets a real "
         "incremental build re-executes or whose outputs change.",
    note="Bounded: 5 target slots, 6 base repositories, <=2 changed files, one definition edit per case; levels -1 and 0 only; a dependent that "
         "`requires` what a provider provides is taken to depend on the provided target (weakest reading), so only effective edges propagate; "
         "file-list mode is asked only where no definition changed; manual-labelled targets, subrepos, deleted files and subincludes are not modelled; "
         "trusted: git, the generated commands' action log, TLC.",
    technique="TLA+ spec Changes.tla model-checked with TLC; TLC-enumerated before/after cases replayed in-process into query.Changes/DiffGraphs and e2e into `plz query changes` (file list and --since on a real git history)")


@register("C24", claim=CLAIM24)
def run_c24(ctx):
    vlib.build_plz()
    ctx.rule = ("every before/after case of Changes.tla (6 base repositories x {1-2 changed files, one-field definition edit [x one changed file in thorough], "
                "new target, configuration change}) enumerated by TLC, all of them through the in-process binding and a seeded sample (50 quick / 600 thorough, stratified by number of files, reasons, modes) end to end; "
                "non-trivial = Affected has a target beyond Direct or a definition/config edit; distinct by (before, after, files, config)")
    ctx.assumptions += ["a dependent that requires what a declared dependency provides depends on the provided target, not on the provider (effective edges)",
                        "reporting more than Affected is allowed",
                        "with a file list there is no `before`, so definition edits are only asked with --since",
                        "the spec's Affected must contain every target a real incremental build re-executes or whose outputs change (else exit 2)"]
    if ctx.replay_only is not None:
        cases = [d["case"] for d in ctx.replay_only]
        total = len(cases)
    else:
        vlib.build_vh()
        vlib.tlc(ctx, "Changes", "MC_Changes.cfg", workers=8)
        if not ctx.quick:
            # the provider-switch flaw (still in the code: known finding) and the repaired no_test_output flaw are counterexamples
            for cfg in ("MC_Changes_provides_known.cfg", "MC_Changes_noout_known.cfg"):
                fl = vlib.tlc(ctx, "Changes", cfg, workers=4, allow_violation=True)
                ctx.extra["model_counterexample_" + cfg[11:-4]] = fl.invariant
        r = vlib.tlc(ctx, "Changes", "GEN_Changes_q.cfg" if ctx.quick else "GEN_Changes_t.cfg", workers=8)
        seen, cases = set(), []
        for c in sorted(r.cases, key=c24_key):
            if c24_key(c) not in seen:
                seen.add(c24_key(c))
                cases.append(c)
        total = len(cases)
    ctx.extra["cases_enumerated_by_tlc"] = total
    # binding (a): every case in-process
    drift, viols, n = c24_inprocess(ctx, cases)
    ctx.traces_validated += n
    ctx.extra["in_process_queries"] = n
    for sig, det in viols:
        ctx.violation(sig, det)
    for case in cases:
        nt = len(case["affected"]) > len(case["direct"]) or case["before"] != case["after"] or case["cfg"]
        ctx.count("in-process:" + c24_key(case), nontrivial=nt)
    # binding (b): end to end, with a real git history, on a seeded stratified sample (about 1 s per case)
    if ctx.replay_only is None:
        cases = stratified(cases, c24_class, sample_size(50 if ctx.quick else 600), random.Random(ctx.seed))
    with ThreadPoolExecutor(max_workers=12) as ex:
        futs = [ex.submit(c24_replay, ctx, i, c, {}) for i, c in enumerate(cases)]
        results = [(cases[i], f.result()) for i, f in enumerate(futs)]
    for case, (viols, stt) in results:
        nt = len(case["affected"]) > len(case["direct"]) or case["before"] != case["after"] or case["cfg"]
        ctx.count("e2e:" + c24_key(case), nontrivial=nt, sample=dict(trace=stt["trace"], affected=case["affected"], direct=case["direct"]) if nt else None)
        ctx.traces_validated += stt["queries"]
        drift += stt["drift"]
        for sig, det in viols:
            ctx.violation(sig, det)
    if drift:
        ctx.drift("%d query mode(s) printed a different set than the algorithm model predicted (judged by the property only)" % drift)
    # every enumerated case of the bound went through the in-process binding; the e2e binding takes a sample
    ctx.exhaustive = ctx.replay_only is None
