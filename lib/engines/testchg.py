"""C11 (test result reuse) and C24 (change detection): TestReuse.tla / Changes.tla, G->I end to end against the real plz binary.

C11  TLC-generated edit / `plz test` histories are replayed in a scratch repository of gentest targets; per invocation
     the exit status, the per-target outcome (test_results.xml) and the set of test commands that really ran (action
     log outside the repository) are compared with the spec's property-level expectation (Fresh outcome, reuse only
     where a passing run on exactly the current runtime inputs exists in the REAL execution history); the spec's Fresh
     is itself cross-checked against a real fresh run (clean copy, empty plz-out, no cache).
C24  TLC-generated before/after repositories with the spec's Direct / Affected sets are rendered into scratch
     repositories (with a real git history for --since) and `plz query changes` is asked in both modes.
"""
import hashlib
import json
import os
import random
import shutil
import subprocess
import threading
import xml.etree.ElementTree as ET
from concurrent.futures import ThreadPoolExecutor

import e2e
import vlib
from engines import register

PKG = "p"


class TRepo(e2e.Repo):
    """e2e.Repo (HOME isolation, explicit empty [cache] dir, action log outside the repository, plz runner) with
    free-form file rendering instead of the Incremental.tla rendering."""

    def __init__(self, root, logpath, **kw):
        super().__init__(root, logpath, **kw)
        self.files = {}

    def write(self, rel, content, inplace=True, mode=None):
        p = os.path.join(self.root, rel)
        os.makedirs(os.path.dirname(p), exist_ok=True)
        if self.files.get(rel) == content and os.path.exists(p):
            return
        if inplace or not os.path.exists(p):
            with open(p, "w") as fh:
                fh.write(content)
        else:
            with open(p + ".new", "w") as fh:
                fh.write(content)
            os.rename(p + ".new", p)
        if mode is not None:
            os.chmod(p, mode)
        self.files[rel] = content

    def remove(self, rel):
        p = os.path.join(self.root, rel)
        if os.path.isdir(p):
            shutil.rmtree(p)
        elif os.path.exists(p):
            os.remove(p)
        for k in [k for k in self.files if k == rel or k.startswith(rel + "/")]:
            del self.files[k]

    def sync(self, want):
        """Makes the working tree (outside plz-out) equal to `want` (rel path -> content)."""
        for rel in sorted(set(self.files) - set(want)):
            self.remove(rel)
            d = os.path.dirname(os.path.join(self.root, rel))
            while d != self.root and os.path.isdir(d) and not os.listdir(d):
                os.rmdir(d)
                d = os.path.dirname(d)
        for rel, c in sorted(want.items()):
            self.write(rel, c)

    def destroy(self):
        shutil.rmtree(self.root, ignore_errors=True)
        shutil.rmtree(self.home, ignore_errors=True)


# ======================================================================================================== C11
C11_PATH = {"d1": "p/d1.txt", "d2": "p/d2.txt", "ga": "p/ga.out", "gb": "p/gb.out", "ddx": "p/dd/x", "ddy": "p/dd/y",
            "bin": "t2.bin"}
C11_DATA = {"d1": '"d1.txt"', "d2": '"d2.txt"', "dd": '"dd"', "g": '":g"'}


def c11_tree(st, log):
    """Model state of TestReuse.tla -> files of the scratch repository."""
    tree = {"p/%s.txt" % f: c for f, c in st["file"].items()}
    tree["p/dd/" + st["ddn"]] = "ok"
    b = ['genrule(\n    name = "g",\n    srcs = ["s.txt"],\n    outs = ["%s.out"],\n    cmd = "echo \'S //p:g\' >> %s; cat $SRCS > $OUT",\n)\n'
         % (st["gout"], log)]
    for i, d in enumerate(st["defs"]):
        t = i + 1
        reads = " ".join(C11_PATH[r] for r in sorted(d["reads"]))
        cmd = ("echo 'T //p:t%d' >> %s; for f in %s; do [ \"$(cat $f 2>/dev/null)\" = ok ] || exit 1; done" % (t, log, reads))
        lines = ['    name = "t%d",' % t]
        if t == 2:
            lines += ['    srcs = ["b.txt"],', '    outs = ["t2.bin"],',
                      '    cmd = "echo \'S //p:t2\' >> %s; cat $SRCS > $OUT",' % log]
        lines += ['    test_cmd = %s,' % json.dumps(cmd),
                  '    data = [%s],' % ", ".join(C11_DATA[x] for x in ("d1", "d2", "dd", "g") if x in d["data"])]
        if d["rdeps"]:
            lines.append('    runtime_deps = [":g"],')
        lines.append('    no_test_output = %s,' % ("True" if d["noout"] else "False"))
        b.append("gentest(\n%s\n)\n" % "\n".join(lines))
    tree["p/BUILD"] = "\n".join(b)
    return tree


def c11_apply(st, step):
    act = step["act"]
    if act == "EditFile":
        st["file"][step["f"]] = step["c"]
    elif act == "SwapData":
        st["file"]["d1"], st["file"]["d2"] = st["file"]["d2"], st["file"]["d1"]
    elif act == "RenameGOut":
        st["gout"] = step["to"]
    elif act == "RenameDirEntry":
        st["ddn"] = step["to"]
    elif act == "EditDef":
        st["defs"][step["t"] - 1] = step["def"]
    else:
        raise vlib.Infra("unknown step %s" % act)


def c11_describe(step):
    a = step["act"]
    if a == "EditFile":
        return "edit %s=%s" % (step["f"], step["c"])
    if a == "EditDef":
        d = step["def"]
        return "def t%d data=%s rdeps=%s reads=%s noout=%s" % (step["t"], sorted(d["data"]), sorted(d["rdeps"]), sorted(d["reads"]), d["noout"])
    if a in ("RenameGOut", "RenameDirEntry"):
        return "%s -> %s" % (a, step["to"])
    return a


def run_tests(repo, req):
    """`plz test` of the requested tests; returns dict(rc, outcome{t}, cached{t}, ran[t...], out)."""
    xml = os.path.join(repo.root, "plz-out", "log", "test_results.xml")
    if os.path.exists(xml):
        os.remove(xml)
    rc, outp, _, lines = repo.plz(["test"] + ["//%s:t%d" % (PKG, t) for t in req])
    ran = [int(l.split(":t")[1]) for l in lines if l.startswith("T ")]
    outcome, cached = {}, {}
    if os.path.exists(xml):
        try:
            root = ET.parse(xml).getroot()
        except ET.ParseError as ex:
            raise vlib.Infra("cannot parse %s: %s" % (xml, ex))
        for s in root.iter("testsuite"):
            name = s.get("name", "")
            if not (name.startswith("t") and name[1:].isdigit()):
                continue
            t = int(name[1:])
            bad = int(s.get("failures") or 0) + int(s.get("errors") or 0)
            outcome[t] = "pass" if bad == 0 and int(s.get("tests") or 0) > 0 else "fail"
            cached[t] = any(p.get("name") == "cached" and p.get("value") == "true" for p in s.iter("property"))
    return dict(rc=rc, outcome=outcome, cached=cached, ran=ran, out=outp[-1500:])


_fresh_memo = {}
_fresh_lock = threading.Lock()


def fresh_run(ctx, st, req):
    """Outcome of a fresh `plz test` (clean copy of the tree, empty plz-out, no cache); memoised per tree and request."""
    key = hashlib.sha1(json.dumps([c11_tree(st, "@LOG@"), sorted(req)], sort_keys=True).encode()).hexdigest()
    with _fresh_lock:
        if key in _fresh_memo:
            return _fresh_memo[key]
    d = os.path.join(ctx.scratch, "fresh-%s-%d" % (key[:16], threading.get_ident()))
    r = TRepo(d, d + ".log")
    r.sync(c11_tree(st, d + ".log"))
    res = run_tests(r, req)
    r.destroy()
    if os.path.exists(d + ".log"):
        os.remove(d + ".log")
    with _fresh_lock:
        _fresh_memo[key] = res
    return res


def diff_inputs(old, new):
    """Classifies how the runtime inputs (spec terms) of a test differ between two invocations."""
    cls = []
    if sorted(old["cmd"]) != sorted(new["cmd"]):
        cls.append("test-command")
    if old["noout"] != new["noout"]:
        cls.append("no_test_output")
    fo = {e["p"]: e["c"] for e in old["files"]}
    fn = {e["p"]: e["c"] for e in new["files"]}
    if fo != fn:
        moved = sorted(set(fo) ^ set(fn))
        same_content = all(fo[p] == fn[p] for p in set(fo) & set(fn))
        if moved and same_content and sorted(fo.values()) == sorted(fn.values()):
            kind = ("data-target-output" if all(p[0] == "g" for p in moved)
                    else "data-directory-entry" if all(p.startswith("dd") for p in moved) else "data-file")
            cls.append("runtime-file-renamed-same-content:" + kind)
        elif not same_content and not moved:
            which = sorted(p for p in fo if fo[p] != fn[p])
            cls.append("runtime-file-content:" + "+".join({"d": "data", "g": "dep-output", "b": "binary"}[p[0]] for p in which))
        else:
            cls.append("runtime-file-set")
    return "+".join(cls) if cls else "nothing"


def c11_replay(ctx, idx, beh, opts):
    base = os.path.join(ctx.scratch, "h%d" % idx)
    os.makedirs(base, exist_ok=True)
    log = os.path.join(base, "log")
    repo = TRepo(os.path.join(base, "repo"), log)
    st = dict(file={f: "ok" for f in ("d1", "d2", "s", "b")}, gout="ga", ddn="x", defs=[dict(d) for d in beh["init"]["defs"]])
    repo.sync(c11_tree(st, log))
    viols, trace, tests, drift = [], [], 0, 0
    runs = {1: [], 2: []}       # real executions: (step index, inputs term, real outcome)
    for si, step in enumerate(beh["steps"]):
        act = step["act"]
        if act == "DeletePlzOut":
            repo.delete_plz_out()
            trace.append("rm plz-out")
            continue
        if act != "Test":
            c11_apply(st, step)
            repo.sync(c11_tree(st, log))
            trace.append(c11_describe(step))
            continue
        tests += 1
        req = sorted(step["req"])
        expect = e2e.by_target(step["expect"])
        inputs = e2e.by_target(step["inputs"])
        obs = run_tests(repo, req)
        trace.append("test %s -> rc=%d outcome=%s ran=%s cached=%s" % (req, obs["rc"], obs["outcome"], obs["ran"],
                                                                      sorted(t for t in obs["cached"] if obs["cached"][t])))
        detail = dict(behaviour=beh, step=si, trace=list(trace))
        # the oracle: a fresh run of the same tree, which the spec's Fresh must predict
        fr = fresh_run(ctx, st, req)
        for t in req:
            if fr["outcome"].get(t) != expect[t]:
                raise vlib.Infra("fresh run disagrees with the spec's Fresh for t%d (spec/harness error): spec %s, fresh run %s rc=%s\n%s\n%s"
                                 % (t, expect[t], fr["outcome"].get(t), fr["rc"], "\n".join(trace), fr["out"]))
        if (fr["rc"] == 0) != all(expect[t] == "pass" for t in req) or sorted(set(fr["ran"])) != req:
            raise vlib.Infra("fresh run: exit status %s / executed %s inconsistent with outcomes %s\n%s" % (fr["rc"], fr["ran"], expect, fr["out"]))
        if any(t not in obs["outcome"] for t in req):
            viols.append(("C11 incremental-test-invocation-reports-no-result-where-fresh-run-does", dict(detail, output=obs["out"])))
            break
        if len(obs["ran"]) != len(set(obs["ran"])):
            viols.append(("C11 test-command-ran-twice-in-one-invocation", dict(detail, ran=obs["ran"])))
        for t in req:
            executed = t in obs["ran"]
            last = runs[t][-1] if runs[t] else None
            wrong = obs["outcome"][t] != expect[t]
            if executed:
                if wrong:
                    viols.append(("C11 executed-test-reports-%s-where-fresh-run-reports-%s" % (obs["outcome"][t], expect[t]),
                                  dict(detail, target=t, output=obs["out"])))
                runs[t].append((si, inputs[t], obs["outcome"][t]))
                continue
            # not executed: the result was reused.  Allowed only if a passing run on exactly the current runtime inputs
            # (test command, binary, data files, runtime dependencies: spec term Inputs) really happened before.
            cur = dict(cmd=sorted(inputs[t]["cmd"]), files=sorted((e["p"], e["c"]) for e in inputs[t]["files"]))
            may = any(o == "pass" and dict(cmd=sorted(i["cmd"]), files=sorted((e["p"], e["c"]) for e in i["files"])) == cur
                      for _, i, o in runs[t])
            if not wrong and may and expect[t] == "pass":
                continue
            if last is None:
                sig = "C11 result-reported-without-any-execution"
            elif last[2] != "pass":
                sig = "C11 failing-result-reused"
            else:
                sig = "C11 result-reused-across-change changed=%s" % diff_inputs(last[1], inputs[t])
            viols.append((sig, dict(detail, target=t, reported=obs["outcome"][t], fresh=expect[t], outcome_differs=wrong,
                                    passing_run_on_current_inputs_exists=may)))
        exp_rc0 = all(expect[t] == "pass" for t in req)
        if (obs["rc"] == 0) != exp_rc0 and not viols:
            viols.append(("C11 exit-status-%d-where-fresh-run-%s" % (obs["rc"], "passes" if exp_rc0 else "fails"),
                          dict(detail, output=obs["out"])))
        if sorted(set(obs["ran"])) != sorted(step["algoRan"]):
            drift += 1
        if viols:
            break
    shutil.rmtree(base, ignore_errors=True)
    return viols, dict(tests=tests, drift=drift, trace=trace)


def c11_nontrivial(beh):
    """Non-trivial: an edit or plz-out deletion between two test invocations."""
    seen = edit_after = False
    for s in beh["steps"]:
        if s["act"] == "Test":
            if edit_after:
                return True
            seen = True
        elif seen:
            edit_after = True
    return False


def kinds_of(beh):
    ks = []
    for s in beh["steps"]:
        a = s["act"]
        if a == "EditFile":
            a += ":" + s["f"]
        ks.append(a)
    return tuple(ks)


def stratified(items, keyfn, n, rng):
    """Seeded sample of n items, round-robin over the classes of keyfn (so that rare classes are represented)."""
    groups = {}
    for it in items:
        groups.setdefault(keyfn(it), []).append(it)
    keys = sorted(groups, key=repr)
    rng.shuffle(keys)
    for k in keys:
        rng.shuffle(groups[k])
    out = []
    while len(out) < n and keys:
        for k in list(keys):
            if groups[k]:
                out.append(groups[k].pop())
                if len(out) >= n:
                    break
            else:
                keys.remove(k)
    return out


def uniq_sorted(behs):
    seen, out = set(), []
    for b in sorted(behs, key=lambda b: json.dumps(b, sort_keys=True)):
        k = json.dumps(b, sort_keys=True)
        if k not in seen:
            seen.add(k)
            out.append(b)
    return out


CLAIM11 = dict(
    category="model_checking", design_ref="DESIGN.md §4 C11",
    text="TestReuse.tla models a repository of two gentest targets (data files, a data directory, a data / runtime-dependency genrule, "
         "a built test binary) whose outcome is a spec function of the test command and the files present in the runtime directory, the "
         "reuse decision of test_step.go (stored RuntimeHash of the last passing run, target state) and edit histories (data / source / "
         "binary contents, data swap, renames of a dependency output and of a data-directory entry, test command, data list, runtime deps, "
         "no_test_output, plz-out deletion). TLC checks that the algorithm on injective hashes satisfies C11 (reported = fresh outcome, "
         "reuse only with a passing run on the current runtime inputs, failing results never reused) and that each recorded flaw of the "
         "real RuntimeHash is a counterexample; one history per distinct reachable state is replayed against the real plz binary: exit "
         "status, per-target outcome from test_results.xml and the executed test commands (action log) are compared with the spec's "
         "expectation, and the expectation with a real fresh run of the same tree.",
    note="Bounded: 2 tests, 4 files x 2 contents, <=2 (quick, sampled) / <=3 (thorough, sampled) edits, sequential invocations, no cache "
         "configured, one run per test (no flakes / --num_runs); reuse is judged against the REAL execution history of the replay; trusted: "
         "the action log written by the generated test commands, test_results.xml as the per-target report, TLC, SHA collision freedom.",
    technique="TLA+ spec TestReuse.tla model-checked with TLC; TLC-generated edit/test histories replayed e2e into the real plz binary and compared with the spec's fresh outcome, itself cross-checked by a real fresh run")


@register("C11", claim=CLAIM11)
def run_c11(ctx):
    vlib.build_plz()
    ctx.rule = ("histories = one per distinct reachable state of TestReuse.tla ending in a test invocation at the edit bound (TLC BFS, VIEW without "
                "history); quick: seeded sample stratified by the sequence of step kinds; non-trivial = an edit or plz-out deletion between two "
                "test invocations; distinct by full history")
    ctx.assumptions += ["SHA collisions do not occur (hashes abstract and injective in the spec, DESIGN 2.7)",
                        "runtime inputs = test command, test binary, data files and runtime dependency outputs as path -> content (the statement's list); "
                        "no_test_output is not one of them, its effect is judged through the outcome clause only",
                        "a reuse is allowed iff a passing run on exactly the current runtime inputs really happened earlier in the replayed history",
                        "the fresh run (clean copy, empty plz-out, no cache) is the oracle; the spec's Fresh predicts it and a mismatch between the two is exit 2"]
    pool = ThreadPoolExecutor(max_workers=2)
    mc = []
    if ctx.replay_only is not None:
        behs = [d["behaviour"] for d in ctx.replay_only]
        total = len(behs)
    else:
        # design level, in the background: the algorithm on injective hashes satisfies C11 ...
        mc.append(pool.submit(vlib.tlc, ctx, "TestReuse", "MC_TestReuse.cfg" if ctx.quick else "MC_TestReuse_3.cfg", workers=6, timeout=1500))
        if not ctx.quick:
            # ... each recorded flaw of the real hash is a counterexample, and the flaws bite only under rename / no_test_output edits
            for cfg in ("MC_TestReuse_flaw_paths.cfg", "MC_TestReuse_flaw_noout.cfg"):
                fl = vlib.tlc(ctx, "TestReuse", cfg, workers=4, allow_violation=True)
                ctx.extra["model_counterexample_" + cfg[13:-4]] = fl.invariant
            vlib.tlc(ctx, "TestReuse", "MC_TestReuse_known.cfg", workers=8, timeout=1500)
        if ctx.quick:
            r = vlib.tlc(ctx, "TestReuse", "GEN_TestReuse_2s%d.cfg" % (ctx.seed % 3 + 1), workers=8, timeout=600)
            behs = uniq_sorted(r.behaviours)
            total = len(behs)
            behs = stratified([b for b in behs if c11_nontrivial(b)], kinds_of, 120, random.Random(ctx.seed))
        else:
            r2 = vlib.tlc(ctx, "TestReuse", "GEN_TestReuse_2.cfg", workers=8, timeout=1500)
            r3 = vlib.tlc(ctx, "TestReuse", "GEN_TestReuse_3.cfg", workers=8, timeout=3000)
            b2, b3 = uniq_sorted(r2.behaviours), uniq_sorted(r3.behaviours)
            total = len(b2) + len(b3)
            rng = random.Random(ctx.seed)
            behs = stratified([b for b in b2 if c11_nontrivial(b)], kinds_of, 1800, rng) \
                + stratified([b for b in b3 if c11_nontrivial(b)], kinds_of, 1800, rng)
    ctx.extra["histories_enumerated_by_tlc"] = total
    with ThreadPoolExecutor(max_workers=12) as ex:
        futs = [ex.submit(c11_replay, ctx, i, b, {}) for i, b in enumerate(behs)]
        results = [(behs[i], f.result()) for i, f in enumerate(futs)]
    drift = 0
    for beh, (viols, stt) in results:
        nt = c11_nontrivial(beh)
        ctx.count(json.dumps(beh, sort_keys=True), nontrivial=nt, sample=dict(trace=stt["trace"]) if nt and len(stt["trace"]) > 4 else None)
        ctx.traces_validated += stt["tests"]
        drift += stt["drift"]
        for sig, det in viols:
            ctx.violation(sig, det)
    for f in mc:
        f.result()
    pool.shutdown()
    if drift:
        ctx.drift("%d test invocation(s) executed a different set of test commands than the algorithm model predicted (judged by the property only)" % drift)
    ctx.exhaustive = False
