"""C27 coverage aggregation (Coverage.tla) and C26 test outcomes (TestResults.tla): G->I in-process."""
import json
import os
import random
import re
import xml.etree.ElementTree as ET

import vlib
from engines import register


# ------------------------------------------------------------------------------------------------ C27

def _proj(jrun):
    """spec/harness file map -> {file: lines} of the files that are present"""
    return {f: list(v["lines"]) for f, v in jrun.items() if v["present"]}


def _cov_class(exp, got):
    if set(exp) != set(got):
        return "file-set"
    for f in exp:
        if len(exp[f]) != len(got[f]):
            return "length-extension"
    return "line-not-best-state"


CLAIM_C27 = dict(
    category="model_checking", design_ref="DESIGN.md §4 C27",
    text="Coverage.tla: state = accumulated coverage, one Aggregate action per run that has not arrived; TLC explores every "
         "interleaving for every tuple of coverage vectors over the four line states (all pairs of vectors of length <=3 in "
         "the quick tier, all triples in the thorough tier, plus two-file runs where a run may omit a file) and checks that the "
         "accumulator always equals the pointwise best of the runs aggregated so far (hence order independence) and that "
         "re-aggregating an arrived run changes nothing; the semilattice lemmas of the line merge are checked exhaustively. "
         "Every tuple is then aggregated in its arrival order by the real core.TestCoverage.Aggregate (and the first two "
         "runs by core.MergeCoverageLines directly, both ways round), re-aggregated a second time, and compared with the spec's "
         "expected vector after every arrival; results of different orders of the same multiset are also compared with each "
         "other. Longer vectors / more runs come from tlc -simulate growing runs line by line.",
    note="Exhaustive within the bound (length <=3, 2 or 3 runs, <=2 files). 'Best' is the greatest value of the "
         "core.LineCoverage enum (NotExecutable < Unreachable < Uncovered < Covered). The per-test map TestCoverage.Tests is "
         "only checked for one entry per distinct test label (tests are independent by the code's own assumption). "
         "Trusted: TLC, JSON decoding, the harness's conversion between ints and core.LineCoverage.",
    technique="TLA+ spec Coverage.tla model-checked with TLC over all interleavings; TLC-enumerated cases replayed into the "
              "real TestCoverage.Aggregate / MergeCoverageLines")


def _c27_batch(ctx, st, cases):
    """replays one batch of cases into the real code and judges it; st carries what must survive between batches"""
    for c in cases:
        c["id"] = st["next_id"]
        st["next_id"] += 1
    obs = vlib.run_vh(ctx, "coverage", [dict(id=c["id"], runs=c["runs"]) for c in cases])
    by_multiset = st["by_multiset"]
    for c in cases:
        o = obs.get(c["id"])
        if o is None:
            raise vlib.Infra("no observation for coverage case %d" % c["id"])
        if "panic" in o:
            ctx.violation("C27 panic-in-real-code", dict(case=c, observed=o))
            continue
        runs = [_proj(r) for r in c["runs"]]
        exp = _proj(c["expect"])
        if _proj(c["algo"]) != exp:
            raise vlib.Infra("Coverage.tla: algorithm model disagrees with Best on %s" % json.dumps(c["runs"]))
        key = json.dumps(runs, sort_keys=True)
        nontrivial = any(f in runs[j] and runs[i][f] != runs[j][f]
                         for i in range(len(runs)) for j in range(i) for f in runs[i])
        ctx.count(key, nontrivial=nontrivial,
                  sample=dict(case=dict(runs=c["runs"], expect=c["expect"]), observed=o["once"])
                  if nontrivial and (len(ctx.samples) < 2 or (len(runs) > 2 and len(ctx.samples) < 5)) else None)
        detail = dict(case=c, observed=o)
        once, twice = _proj(o["once"]), _proj(o["twice"])
        if once != exp:
            ctx.violation("C27 aggregate %s" % _cov_class(exp, once), detail)
        for k, stp in enumerate(o["steps"]):
            pk = _proj(c["prefix"][k])
            if _proj(stp) != pk and once == exp:
                ctx.violation("C27 aggregate prefix %s" % _cov_class(pk, _proj(stp)), detail)
                break
        if twice != once:
            ctx.violation("C27 aggregate not-idempotent", detail)
        if not o["inputs_intact"]:
            st["mutated"] += 1
        if o["tests"] != len(runs):
            ctx.violation("C27 aggregate per-test-map", detail)
        elif "pertest" in o:
            # Coverage.tla PerTest: the aggregate's entry for test i is run i's own coverage, whatever was merged after it
            for i, r in enumerate(c["runs"]):
                want = {f: v["lines"] for f, v in r.items() if v["present"]}
                got = {f: v["lines"] for f, v in o["pertest"][i].items()}
                if got != want:
                    ctx.violation("C27 aggregate per-test-entry-changed-by-later-merge", detail)
                    break
        if len(runs) >= 2:
            p2 = _proj(c["prefix"][1])
            for f, d in (o.get("direct") or {}).items():
                if d["ab"] != d["ba"]:
                    ctx.violation("C27 merge order-dependent", detail)
                elif d["ab"] != p2[f]:
                    ctx.violation("C27 merge %s" % _cov_class({f: p2[f]}, {f: d["ab"]}), detail)
                if d["aa"] != runs[0][f]:
                    ctx.violation("C27 merge not-idempotent", detail)
        ms = json.dumps(sorted(json.dumps(r, sort_keys=True) for r in runs))
        prev = by_multiset.setdefault(ms, (once, c["runs"]))
        if prev[0] != once:
            ctx.violation("C27 aggregate order-dependent", dict(case=c, observed=o, other_order=prev[1],
                                                                other_result=prev[0]))
    ctx.traces_validated += len(cases)


@register("C27", claim=CLAIM_C27)
def run_c27(ctx):
    ctx.rule = ("every tuple of runs (vectors over the 4 line states, length <=3; 2 runs quick / 3 runs thorough; plus 2-file "
                "runs with optional absence; plus simulated larger inputs) is one initial state of Coverage.tla, aggregated in "
                "index order by the real TestCoverage.Aggregate; all tuples are enumerated so all orders of each multiset are "
                "covered; non-trivial = at least two runs report a common file with different vectors; distinct by the tuple")
    ctx.assumptions = ["'best state' is the maximum of the core.LineCoverage enum order",
                       "tests are independent: every run carries its own test label (as the code assumes)",
                       "a file omitted by every run is absent from the result; a file reported with zero lines is present"]
    st = dict(next_id=0, by_multiset={}, mutated=0)
    if ctx.replay_only is not None:
        _c27_batch(ctx, st, [d["case"] for d in ctx.replay_only])
    else:
        vlib.tlc(ctx, "Coverage", "MC_CoverageLemmas_2.cfg" if ctx.quick else "MC_CoverageLemmas_3.cfg", workers=4)
        cfgs = ["GEN_Coverage_pairs.cfg", "GEN_Coverage_files2.cfg"]
        if not ctx.quick:
            cfgs += ["GEN_Coverage_files3.cfg", "GEN_Coverage_files2len2.cfg"]
            cfgs += ["GEN_Coverage_triples_p%d.cfg" % p for p in range(4)]
        for cfg in cfgs:     # one batch per configuration: the cases of a batch are dropped before the next one
            _c27_batch(ctx, st, vlib.tlc(ctx, "Coverage", cfg, workers=8, timeout=2400, java_opts=["-Xmx6g"]).cases)
        _c27_batch(ctx, st, vlib.tlc(ctx, "Coverage", "SIM_Coverage.cfg", workers=1,
                                     simulate=5 if ctx.quick else 80, depth=30, seed=ctx.seed).cases)
        ctx.exhaustive = True
    ctx.extra["multisets"] = len(st["by_multiset"])
    ctx.extra["cases_where_inputs_were_mutated"] = st["mutated"]
    if st["mutated"]:
        ctx.notes.append("Aggregate/Merge wrote through to %d input run objects (not a C27 violation by itself)"
                         % st["mutated"])


# ------------------------------------------------------------------------------------------------ C26

CLAIM_C26 = dict(
    category="model_checking", design_ref="DESIGN.md §4 C26",
    text="TestResults.tla models the flaky-retry loop of doFlakeRun as actions (one attempt = one Run action that adds its cases "
         "with TestSuite.Add and stops on the first fully successful attempt or when the allowance is used up) over skeletons "
         "of test-case entries (name + one of two classnames or NO classname, possibly listed twice; an unqualified and a "
         "qualified case of the same name are different cases) and outcomes pass/fail/error/skip per attempt. The "
         "property level is computed from the raw attempts: the distinct identities, per counter the range the statement "
         "allows, per identity the number of executions of each kind (none may be lost or invented; after Please writes "
         "its results and reads them back, at least the failing/erroring executions of never-passing cases), "
         "and 'target passes iff every identity passed or was skipped in some attempt made'; TLC checks the "
         "algorithm-level counters (shaped like core.TestSuite) against it on every reachable state and prints every "
         "terminal behaviour. Each behaviour is rendered by the harness to JUnit XML (single suite, several suites, a suite "
         "nested in a suite; names and classnames containing < > & \" ' and an entity-looking text) and to `go test -v` text, "
         "one file per attempt; every file is parsed by the real parseTestResults / parseTestOutput (verif export), accumulated "
         "with the real TestSuite.Add / AllSucceeded / BuildTarget.AddTestResults, and the real counters are compared with "
         "the spec's expectation; the final results are also written by the real SerialiseResultsToXML and parsed back, "
         "and the whole behaviour is additionally rendered as one file with flakyFailure/flakyError/rerunFailure/rerunError. "
         "A sample of behaviours is also run through the real `plz test` (real doFlakeRun loop).",
    note="Ranges instead of exact counts where the statement leaves room: a case that passed only after a retry may or may not "
         "be counted in 'passed'; a case with both a skip and a pass may be counted either way; error+fail without a pass may be "
         "either; a case listed twice that passed both times may or may not be shown as a flake. `go test -v` cannot express "
         "'error' (rendered and expected as fail) nor classnames (encoded into the test name). In-process the retry loop is "
         "mirrored by the harness from doFlakeRun (real Add/AllSucceeded calls); the real loop is exercised end to end on a "
         "stratified sample (24 behaviours quick / 150 thorough, XML and go each) by `plz test` on gentest targets with "
         "flaky=N whose command serves the k-th attempt's file and exit status: attempts made, test_results.xml counts and "
         "identities, failed-target list and exit status are compared. A crashed attempt that writes no results file is "
         "outside the statement (not generated).",
    technique="TLA+ spec TestResults.tla model-checked with TLC; TLC-generated behaviours rendered to result files and replayed "
              "into the real parsers and TestSuite counters")

_COUNTERS = ["passes", "failures", "errors", "skips", "flaky"]


_KINDS = (("P", "pass"), ("F", "fail"), ("E", "error"), ("S", "skip"))


def _c26_execs(want, o, strict_only):
    """compares the executions the real code holds per case (o["execs"], parallel to o["ids"]) with the spec's counts.
    strict_only: only the failing/erroring executions of cases that never passed nor were skipped (after Please wrote
    the results out and read them back; the writer is free in what it keeps of the others)."""
    by_id = {(w["cls"], w["name"]): w for w in want}
    out = set()
    for ident, ex in zip(o["ids"], o.get("execs", [])):
        w = by_id.get(tuple(ident))
        if w is None:
            continue
        if strict_only and not w["strict"]:
            continue
        kinds = (("F", "fail"), ("E", "error")) if strict_only else _KINDS
        got = {k: ex.count(letter) for letter, k in kinds}
        exp = {k: w[k] for _, k in kinds}
        if got == exp:
            continue
        if sum(got.values()) < sum(exp.values()):
            out.add("executions-lost")
        elif sum(got.values()) > sum(exp.values()):
            out.add("executions-added")
        else:
            out.add("execution-kinds-changed")
    return sorted(out)


def _c26_check(exp, o, n_runs, execs=None, strict_only=False):
    """returns a list of mismatch classes of one observation against the expectation of its format"""
    if "parse_error" in o:
        return ["parse-error"]
    out = []
    want_ids = sorted((i["cls"], i["name"]) for i in exp["_ids"])
    got_ids = sorted(tuple(i) for i in o["ids"])
    if got_ids != want_ids:
        gs, ws = set(got_ids), set(want_ids)
        if any(n == "?the_test" for c, n in gs):
            # parseTestOutput added a case of its own, named after the target: everything else follows from it
            return ["synthetic-case-added"] + (["retry-loop-attempts"] if o.get("attempts_used", n_runs) != n_runs else [])
        elif any(c.startswith("?") or n.startswith("?") for c, n in gs):
            out.append("case-names-changed")
        elif gs < ws:
            lost = ws - gs
            if all(c == "c0" and any(n2 == n and c2 != "c0" for c2, n2 in gs) for c, n in lost):
                # a case without classname vanished while a class-qualified case of the same name stayed
                out.append("cases-lost unqualified-case-merged-into-qualified-namesake")
            else:
                out.append("cases-lost")
        elif ws < gs or len(got_ids) > len(want_ids):
            out.append("cases-duplicated-or-added")
        else:
            out.append("cases-differ")
    elif o["tests"] != exp["tests"]:
        out.append("tests-count")
    if not out:
        if execs is not None:
            out += _c26_execs(execs, o, strict_only)
        for k in _COUNTERS:
            lo, hi = exp[k]
            if not (lo <= o[k] <= hi):
                out.append("count-" + k)
    if o["target_passes"] != exp["target_passes"]:
        out.append("target-verdict")
    if o.get("attempts_used", n_runs) != n_runs:
        out.append("retry-loop-attempts")
    return out


def _errors_but_no_failures(case):
    """some attempt lists an errored case and no failed case (XML): exit status non-zero, Failures() == 0"""
    return any(any(e["out"] == "error" for e in r) and not any(e["out"] == "fail" for e in r) for r in case["runs"])


def _c26_e2e(ctx, cases, n):
    """A sample of behaviours through the real `plz test`: one gentest per (behaviour, format) whose command copies the
    file of its k-th attempt to $RESULTS_FILE and exits with that attempt's status; the real doFlakeRun drives the retries.
    Observed: number of attempts actually made, what plz writes to plz-out/log/test_results.xml, which targets it
    prints as failed, and its exit status."""
    if not cases or n <= 0:
        return 0
    rnd = random.Random(ctx.seed)
    # strata: the break out of the loop matters / retries happen / the rest
    early = [c for c in cases if c["stopped"] and c["allow"] > len(c["runs"])]
    early_ids = {c["id"] for c in early}
    retry = [c for c in cases if len(c["runs"]) >= 2 and c["id"] not in early_ids]
    rest = [c for c in cases if len(c["runs"]) < 2 and c["id"] not in early_ids]
    for l in (early, retry, rest):
        rnd.shuffle(l)
    sample = early[:n // 4]
    sample += retry[:n // 2]
    sample += rest[:n - len(sample)]
    plz = vlib.build_plz()
    root = os.path.join(ctx.scratch, "e2e-c26")
    repo, cnt, home = os.path.join(root, "repo"), os.path.join(root, "cnt"), os.path.join(root, "home")
    for d in (os.path.join(repo, "t"), cnt, home):
        os.makedirs(d, exist_ok=True)
    with open(os.path.join(repo, ".plzconfig"), "w") as f:
        f.write("[cache]\ndir = %s\n[please]\nselfupdate = false\n" % os.path.join(root, "cache"))
    info = vlib.run_vh(ctx, "testresults-render", [dict(id=c["id"], allow=c["allow"], runs=c["runs"]) for c in sample],
                       args=[os.path.join(repo, "t")])
    build = []
    for c in sample:
        for fmt in ("xml", "go"):
            name = "c%d_%s" % (c["id"], fmt)
            data = ["c%d.%s.%d" % (c["id"], fmt, k + 1) for k in range(len(c["runs"]))]
            data += ["c%d.exit.%d" % (c["id"], k + 1) for k in range(len(c["runs"]))]
            cmd = ("n=$(cat {cnt}/{name} 2>/dev/null || echo 0); n=$((n+1)); echo $n > {cnt}/{name}; "
                   "cp t/c{id}.{fmt}.$n $RESULTS_FILE || exit 9; exit $(cat t/c{id}.exit.$n)"
                   ).format(cnt=cnt, name=name, id=c["id"], fmt=fmt)
            build.append("gentest(name = %r, data = %r, flaky = %d, test_cmd = %r, no_test_output = False)"
                         % (name, data, c["allow"] if c["allow"] > 1 else 0, cmd))
    with open(os.path.join(repo, "t", "BUILD"), "w") as f:
        f.write("\n".join(build) + "\n")
    env = dict(HOME=home, XDG_CONFIG_HOME="", XDG_CONFIG_DIRS="", XDG_CACHE_HOME=os.path.join(root, "xdgcache"))
    p = vlib.sh([plz, "test", "-p", "-v", "1", "//t:all"], cwd=repo, env=env, check=False, timeout=900)
    text = re.sub(r"\x1b\[[0-9;]*m", "", p.stdout or "")
    xml_path = os.path.join(repo, "plz-out", "log", "test_results.xml")
    if not os.path.exists(xml_path):
        raise vlib.Infra("plz test wrote no test_results.xml (rc=%d):\n%s" % (p.returncode, text[-3000:]))
    failed = set(re.findall(r"^Fail: //t:(\S+)", text, re.M))
    suites = {ts.get("name"): ts for ts in ET.parse(xml_path).getroot().iter("testsuite")}
    rev = {}
    any_info = next(iter(info.values()))
    for c_, cv in any_info["classes"].items():
        for n_, nv in any_info["names"].items():
            rev[(cv, nv)] = (c_, n_)
            rev[(None, any_info["gonames"][c_ + "/" + n_])] = (c_, n_)
    expected_fail = False
    compared = 0
    for c in sample:
        for fmt in ("xml", "go"):
            name = "c%d_%s" % (c["id"], fmt)
            ts = suites.get(name)
            if ts is None:
                raise vlib.Infra("target %s missing from test_results.xml:\n%s" % (name, text[-2000:]))
            ids = []
            for tc in ts.iter("testcase"):
                cls, nm = tc.get("classname"), tc.get("name")
                if cls == "t." + name:          # the serialiser's filler for an empty classname
                    cls = None
                if nm == name and cls is None:
                    ids.append(("?", "?the_test"))
                else:
                    ids.append(rev.get((cls, nm)) or rev.get((cls or "", nm), ("?" + str(cls), "?" + str(nm))))
            try:
                attempts = int(open(os.path.join(cnt, name)).read())
            except Exception:
                attempts = 0
            o = dict(tests=int(ts.get("tests", "0")), failures=int(ts.get("failures", "0")),
                     errors=int(ts.get("errors", "0")), skips=int(ts.get("skipped", "0")),
                     ids=[list(i) for i in ids], target_passes=name not in failed, attempts_used=attempts)
            exp = dict(c["expect"][fmt], _ids=c["ids"])
            # passes / flaky are not attributes of the written XML: not compared end to end
            o["passes"], o["flaky"] = exp["passes"][0], exp["flaky"][0]
            compared += 1
            expected_fail = expected_fail or not exp["target_passes"]
            for b in _c26_check(exp, o, len(c["runs"])):
                if b == "synthetic-case-added":
                    sig = "C26 run/%s synthetic-case-added %s" % (
                        fmt, "when-errors-but-no-failures-reported" if fmt == "xml" and _errors_but_no_failures(c)
                        else "unexpected")
                else:
                    sig = "C26 e2e/%s %s" % (fmt, b)
                ctx.violation(sig, dict(case=c, rendering="e2e/" + fmt, expected=c["expect"][fmt], observed=o, e2e=True))
    if (p.returncode != 0) != bool(failed):
        raise vlib.Infra("plz test exit status %d does not match its own list of failed targets %s:\n%s"
                         % (p.returncode, sorted(failed)[:5], text[-2000:]))
    ctx.extra["e2e_plz_test_targets"] = compared
    return compared


@register("C26", claim=CLAIM_C26)
def run_c26(ctx):
    ctx.rule = ("every terminal behaviour of the retry loop of TestResults.tla (skeletons of <=3 entries over {no class, 2 classes} "
                "x 2 names, first entry fixed up to symmetry; outcomes pass/fail/error/skip; allowance 1..3 with entries x "
                "allowance <= 4 quick; thorough adds 2 entries x 3 attempts and, for the two qualified classes, 3 entries x 2 "
                "attempts; simulated 4-entry x 3-attempt behaviours) rendered to 3 XML structures + go text per "
                "attempt and parsed by the real parser; non-trivial = more than one execution in total; distinct by the "
                "attempt table")
    ctx.assumptions = ["`go test -v` has no 'error' outcome: rendered as FAIL and expected as fail",
                       "counters are checked against ranges where the statement is silent (flaky passes inside 'passed', "
                       "skip+pass mixtures, error+fail mixtures, repeated passes shown as flakes)",
                       "a test exits non-zero iff one of its listed cases failed or errored",
                       "in-process the retry loop is mirrored by the harness (real Add / AllSucceeded); the real doFlakeRun "
                       "is driven only for the e2e sample"]
    if ctx.replay_only is not None:
        cases = [d["case"] for d in ctx.replay_only]
        e2e_n = len([d for d in ctx.replay_only if d.get("e2e")])
    else:
        e2e_n = 24 if ctx.quick else 150
        r = vlib.tlc(ctx, "TestResults", "GEN_TestResults_quick.cfg" if ctx.quick else "GEN_TestResults_thorough.cfg",
                     workers=8, timeout=2400, java_opts=None if ctx.quick else ["-Xmx8g"])
        cases = r.cases
        if not ctx.quick:
            cases += vlib.tlc(ctx, "TestResults", "GEN_TestResults_full.cfg", workers=8, timeout=1200).cases
            cases += vlib.tlc(ctx, "TestResults", "GEN_TestResults_thorough_deep.cfg", workers=8, timeout=2400,
                              java_opts=["-Xmx8g"]).cases
        s = vlib.tlc(ctx, "TestResults", "SIM_TestResults.cfg", workers=1, simulate=3 if ctx.quick else 60, depth=5,
                     seed=ctx.seed)
        cases += s.cases
        ctx.exhaustive = True
    for i, c in enumerate(cases):
        c["id"] = i
    n_obs = 0
    drift = 0
    obs = {}
    for k, c in enumerate(cases):
        if k % 4000 == 0:       # observations are large: replay in chunks
            obs = vlib.run_vh(ctx, "testresults", [dict(id=x["id"], allow=x["allow"], runs=x["runs"], layouts=x["layouts"],
                                                        inline_ok=x["inline_ok"]) for x in cases[k:k + 4000]])
        o = obs.get(c["id"])
        if o is None:
            raise vlib.Infra("no observation for test-results case %d" % c["id"])
        if "panic" in o:
            ctx.violation("C26 panic-in-real-code", dict(case=c, observed=o))
            continue
        n_exec = sum(len(r) for r in c["runs"])
        ctx.count(json.dumps([c["allow"], c["runs"]]), nontrivial=n_exec > 1,
                  sample=dict(case=dict(allow=c["allow"], runs=c["runs"], expect=c["expect"]),
                              observed={k: {x: v[x] for x in v if x not in ("roundtrip",)}
                                        for k, v in o["obs"].items() if k in ("run/xml:suites", "run/go")})
                  if len(c["runs"]) > 1 and c["id"] % 211 == 0 else None)
        flat_bad = {}
        ob_all = o["obs"]
        # a testsuite nested in a testsuite: when the parser alone already yields fewer executions than for the
        # same cases in one plain suite, every other observation of that structure is a consequence and is
        # reported under the one signature
        def n_execs(k):
            return sum(len(x) for x in ob_all[k].get("execs", [])) if k in ob_all else None
        nested_lost = ("parse/xml:nested" in ob_all and "parse/xml:flat" in ob_all
                       and "parse_error" not in ob_all["parse/xml:nested"]
                       and n_execs("parse/xml:nested") < n_execs("parse/xml:flat"))
        if nested_lost:
            ctx.violation("C26 parse/xml:nested cases-of-nested-testsuite-dropped",
                          dict(case=c, rendering="parse/xml:nested", expected=c["expect"]["xml"],
                               observed=ob_all["parse/xml:nested"]))
        for key in sorted(ob_all):
            ob = ob_all[key]
            level, rendering = key.split("/", 1)
            if rendering == "xml:nested" and nested_lost:
                continue
            fmt = "go" if rendering == "go" else "xml"
            exp = dict(c["expect"][fmt], _ids=c["ids"])
            main_bad = None
            for which, x in (("", ob), (" roundtrip", ob.get("roundtrip"))):
                if x is None or (which and main_bad):      # a wrong result re-serialised is the same wrong result
                    continue
                n_obs += 1
                # executions: exact for what the parser makes of the attempt files; what one <testcase> element can
                # say for the one-file rendering; after a write/re-read only the strict part
                want_execs = c["inline"] if level == "inline" else c["execs"][fmt]
                bad = _c26_check(exp, x, len(c["runs"]), execs=want_execs, strict_only=bool(which))
                if not which:
                    main_bad = bad
                if rendering == "xml:flat":
                    flat_bad[(level, which)] = bad
                # the same mismatch in every XML structure is reported once, for the plain structure
                if rendering in ("xml:suites", "xml:nested") and bad == flat_bad.get((level, which)):
                    continue
                for b in bad:
                    if b == "synthetic-case-added":
                        b += (" when-errors-but-no-failures-reported"
                              if fmt == "xml" and _errors_but_no_failures(c) else " unexpected")
                        sig = "C26 %s/%s%s %s" % (level, fmt, which, b)
                    else:
                        sig = "C26 %s/%s%s %s" % (level, rendering, which, b)
                    ctx.violation(sig, dict(case=c, rendering=key, expected=c["expect"][fmt], observed=x))
                # algorithm-level diagnostic: the exact counters of the model
                if not bad and "tests" in x and which == "" and level != "inline":
                    a = c["algo"][fmt]
                    if any(x[k] != a[k] for k in _COUNTERS + ["tests"]):
                        drift += 1
    if drift:
        ctx.drift("%d observations within the allowed ranges but different from the algorithm model's exact counters" % drift)
    ctx.extra["observations_compared"] = n_obs
    ctx.traces_validated = len(cases) + _c26_e2e(ctx, cases, e2e_n)
