"""READY: properties whose check is finished and registered in MANIFEST.json.
NOT_APPLICABLE: reasons for properties not claimed (property id -> reason)."""
READY = {"C01", "C02", "C03", "C04", "C05", "C06", "C08", "C09", "C12", "C13", "C14", "C15", "C30", "C31", "C32"}
NOT_APPLICABLE = {}
