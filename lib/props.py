"""Reasons for properties not claimed (property id -> reason)."""
NOT_APPLICABLE = {}
