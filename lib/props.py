"""READY: properties whose check is finished and registered in MANIFEST.json.
NOT_APPLICABLE: reasons for properties not claimed (property id -> reason)."""
READY = {"C%02d" % i for i in range(1, 40)}
NOT_APPLICABLE = {}
