"""Per-property manifest metadata (level text, notes, technique). MANIFEST.json is generated from this by lib/mkmanifest.py."""
CLAIMS = {
    "C06": dict(
        category="model_checking", design_ref="DESIGN.md §4 C06", engine="cycle",
        text="TLC enumerates every digraph on 4 (quick) / 5 (thorough) targets as an initial state of CycleDetector.tla, "
             "checks soundness and completeness of the algorithm-level DFS model on each, and every graph is rebuilt as a real "
             "core.BuildGraph and run through the real cycle detector; the verdict is the property itself (cycle reported iff cyclic, "
             "reported cycle is a closed walk of real edges), never equality with the model's cycle. Larger graphs come from tlc -simulate "
             "growing a 9-node graph edge by edge.",
        note="Exhaustive only within the bound; self-loops are model-only because the code refuses to declare them; "
             "trusted: TLC, the JSON case decoding, the harness's graph construction through AddDependency/ResolveDependencies.",
        technique="TLA+ spec CycleDetector.tla model-checked with TLC; TLC-enumerated cases replayed into the real cycle detector"),
}
NOT_APPLICABLE = {}
