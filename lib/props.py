"""READY: properties whose check is finished and registered in MANIFEST.json.
NOT_APPLICABLE: reasons for properties not claimed (property id -> reason)."""
READY = {"C01", "C02", "C03", "C04", "C05", "C06", "C07", "C08", "C09", "C12", "C13", "C14", "C15", "C16", "C17", "C18", "C19", "C20", "C21", "C22", "C23", "C25", "C26", "C27", "C28", "C29", "C30", "C31", "C32", "C33", "C34", "C36", "C37", "C38", "C39"}
NOT_APPLICABLE = {}
