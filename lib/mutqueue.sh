#!/bin/bash
# Processes seeded mutations one at a time as they arrive under /tmp/mut-out/<ID>/m<k>/: confirms the demonstration
# (lib/seed.sh) and runs the property's check against the mutated checkout (lib/mutcheck.sh). Results in
# /tmp/mut-out/<ID>/m<k>/result.txt and appended to /tmp/mut-out/queue.log. Stop with: touch /tmp/mut-out/STOP
cd /verif
FILTER=${1:-C*}
while [ ! -e /tmp/mut-out/STOP ]; do
  did=0
  for d in /tmp/mut-out/C*/m*; do
    [ -e $d/patch.diff ] && [ -e $d/meta.json ] || continue
    [ -e $d/result.txt ] && continue
    P=$(basename $(dirname $d)); M=$(basename $d)
    case "$P" in $FILTER) ;; *) continue;; esac
    did=1
    if [ ! -e /verif/seeded/$P-$M/meta.json ]; then
      lib/seed.sh $P $M > $d/seed.log 2>&1
    fi
    conf=no; [ -e /verif/seeded/$P-$M/meta.json ] && conf=yes
    lib/mutcheck.sh $P $M > $d/mutcheck.out 2>&1
    rc=$(grep -o "exit=[0-9]*" $d/mutcheck.out | head -1)
    echo "$P $M confirmed=$conf check $rc" | tee $d/result.txt >> /tmp/mut-out/queue.log
  done
  [ $did = 0 ] && sleep 60
done
