"""Driver library for the /verif checks: scratch dirs, builds, TLC runner, verdicts, evidence.

Exit codes (DESIGN.md 3.1): 0 held / 1 violation reproduced on the real code / 2 infrastructure trouble.
"""
import hashlib
import json
import os
import re
import shutil
import subprocess
import sys
import tempfile
import time

VERIF = os.path.dirname(os.path.dirname(os.path.abspath(__file__)))
REPO = os.environ.get("VERIF_REPO", "/repo")
SPEC = os.path.join(VERIF, "spec")
BUILD = os.environ.get("VERIF_BUILD", os.path.join(VERIF, ".build"))
GOENV = dict(GOFLAGS="-mod=mod", GOPROXY="off")


class Infra(Exception):
    """Infrastructure trouble: exit 2, never a violation."""


def log(*a):
    print(*a, file=sys.stderr, flush=True)


def sh(cmd, cwd=None, env=None, timeout=None, check=True, stdin=None, capture=True):
    e = dict(os.environ)
    if env:
        e.update(env)
    try:
        p = subprocess.run(cmd, cwd=cwd, env=e, timeout=timeout, input=stdin,
                           stdout=subprocess.PIPE if capture else None,
                           stderr=subprocess.STDOUT if capture else None,
                           shell=isinstance(cmd, str), text=True, errors="replace")
    except subprocess.TimeoutExpired as ex:
        raise Infra("timeout after %ss: %s" % (timeout, cmd)) from ex
    if check and p.returncode != 0:
        raise Infra("command failed (%d): %s\n%s" % (p.returncode, cmd, (p.stdout or "")[-4000:]))
    return p


# ------------------------------------------------------------------------------------------- builds

_built = {}


def run_plz(cmd, cwd, env, timeout):
    """Runs a plz command; on timeout asks verifhook for a goroutine dump (SIGUSR1) before killing it, so that a hang is
    diagnosable.  Returns (rc, output, dump) with rc = -9 and dump = the goroutine dump when it timed out."""
    import signal
    d = os.path.join(VERIF, "replays")
    os.makedirs(d, exist_ok=True)
    path = os.path.join(d, "hang-%d-%d.txt" % (os.getpid(), int(time.time() * 1000000)))
    p = subprocess.Popen(cmd, cwd=cwd, env=dict(env, VERIF_DUMP=path), stdout=subprocess.PIPE, stderr=subprocess.STDOUT, text=True,
                         errors="replace", start_new_session=True)
    try:
        out, _ = p.communicate(timeout=timeout)
        return p.returncode, out, None
    except subprocess.TimeoutExpired:
        try:
            os.kill(p.pid, signal.SIGUSR1)      # verifhook writes every goroutine's stack to VERIF_DUMP
            time.sleep(2)
            os.killpg(p.pid, signal.SIGKILL)
        except OSError:
            pass
        # ... and whatever it left behind in its session (commands run in process groups of their own)
        subprocess.run(["pkill", "-KILL", "-s", str(p.pid)], stdout=subprocess.DEVNULL, stderr=subprocess.DEVNULL)
        out, _ = p.communicate()
        with open(path, "a") as f:
            f.write("\ncmd: %s\ncwd: %s\ntimeout: %ss\noutput:\n%s" % (cmd, cwd, timeout, out))
        return -9, "TIMEOUT after %ss (goroutine dump in %s)\n%s" % (timeout, path, out[-3000:]), path


def build_plz():
    """Builds the plz binary from /repo's current working tree with the verif tag."""
    if "plz" in _built:
        return _built["plz"]
    os.makedirs(BUILD, exist_ok=True)
    out = os.path.join(BUILD, "plz")
    t = time.time()
    sh(["go", "build", "-tags", "verif", "-o", out, "./src/"], cwd=REPO, env=GOENV, timeout=1500)
    log("[build] plz %.1fs" % (time.time() - t))
    _built["plz"] = out
    return out


def build_httpcache():
    """Builds the repository's own HTTP cache server (tools/http_cache) from /repo's working tree."""
    if "httpcache" in _built:
        return _built["httpcache"]
    os.makedirs(BUILD, exist_ok=True)
    out = os.path.join(BUILD, "httpcache")
    t = time.time()
    sh(["go", "build", "-o", out, "./tools/http_cache/"], cwd=REPO, env=GOENV, timeout=1500)
    log("[build] httpcache %.1fs" % (time.time() - t))
    _built["httpcache"] = out
    return out


def build_vh():
    """Builds the harness binary `vh` against /repo's current working tree with the verif tag."""
    if "vh" in _built:
        return _built["vh"]
    os.makedirs(BUILD, exist_ok=True)
    hdir = os.path.join(VERIF, "harness")
    mod = open(os.path.join(hdir, "go.mod.in")).read().replace("@REPO@", REPO)
    # the real module file lives in the build directory (-modfile), so that builds against different checkouts of
    # the repository (VERIF_REPO) do not fight over harness/go.mod; a go.mod must still exist to mark the module root
    if not os.path.exists(os.path.join(hdir, "go.mod")):
        with open(os.path.join(hdir, "go.mod"), "w") as f:
            f.write(mod)
    shutil.copyfile(os.path.join(REPO, "go.sum"), os.path.join(BUILD, "vh.sum"))
    with open(os.path.join(BUILD, "vh.mod"), "w") as f:
        f.write(mod)
    out = os.path.join(BUILD, "vh")
    t = time.time()
    sh(["go", "build", "-modfile", os.path.join(BUILD, "vh.mod"), "-tags", "verif", "-o", out, "."], cwd=hdir, env=GOENV, timeout=1500)
    log("[build] vh %.1fs" % (time.time() - t))
    _built["vh"] = out
    return out


# --------------------------------------------------------------------------------------------- TLC

_CASE = re.compile(r'^<<"(CASE|BEHAVIOUR|NOTE)", "(.*)">>$')
_ESC = re.compile(r'\\(.)')


def _unescape(s):
    return _ESC.sub(lambda m: {"n": "\n", "t": "\t"}.get(m.group(1), m.group(1)), s)


class TLCResult:
    def __init__(self):
        self.out = ""
        self.generated = 0
        self.distinct = 0
        self.cases = []
        self.behaviours = []
        self.notes = []
        self.ok = False            # "No error has been found" / finished
        self.invariant = None      # name of violated invariant / property
        self.error_trace = []      # raw state lines of a counterexample
        self.wall = 0.0
        self.coverage = {}


def tlc(ctx, module, cfg, workers=16, simulate=None, depth=None, seed=None, timeout=900, files=None,
        java_opts=None, coverage=False, extra=None, allow_violation=False, dfs=False):
    """Runs TLC on spec/<module>.tla with spec/<cfg> in a scratch copy. files: extra files to write there."""
    d = tempfile.mkdtemp(prefix="tlc-", dir=ctx.scratch)
    for f in os.listdir(SPEC):
        if f.endswith((".tla", ".cfg")):
            shutil.copyfile(os.path.join(SPEC, f), os.path.join(d, f))
    for name, content in (files or {}).items():
        with open(os.path.join(d, name), "w") as f:
            f.write(content)
    cmd = ["tlc", "-workers", str(workers), "-metadir", os.path.join(d, "md"), "-config", cfg]
    if simulate:
        cmd += ["-simulate", "num=%d" % simulate]
        if depth:
            cmd += ["-depth", str(depth)]
    if seed is not None:
        cmd += ["-seed", str(seed)]
    if coverage:
        cmd += ["-coverage", "1"]
    cmd += ["-deadlock"] if False else []
    cmd += (extra or [])
    cmd += [module + ".tla"]
    env = {}
    jopts = ["-Xss512m"] + (java_opts or [])
    if dfs:
        jopts.append("-Dtlc2.tool.queue.IStateQueue=StateDeque")
    env["JAVA_TOOL_OPTIONS"] = " ".join(jopts)
    t = time.time()
    p = sh(["timeout", str(timeout)] + cmd, cwd=d, env=env, check=False, timeout=timeout + 30)
    r = TLCResult()
    r.wall = time.time() - t
    r.out = p.stdout or ""
    if p.returncode == 124:
        raise Infra("TLC timeout (%ss) on %s/%s" % (timeout, module, cfg))
    in_trace = False
    for line in r.out.splitlines():
        m = _CASE.match(line)
        if m:
            try:
                obj = json.loads(_unescape(m.group(2)))
            except Exception as ex:  # a malformed case is a spec/driver bug
                raise Infra("cannot decode TLC case: %s (%s)" % (line[:200], ex))
            {"CASE": r.cases, "BEHAVIOUR": r.behaviours, "NOTE": r.notes}[m.group(1)].append(obj)
            continue
        m = re.match(r"^(\d+) states generated, (\d+) distinct states found", line)
        if m:
            r.generated, r.distinct = int(m.group(1)), int(m.group(2))
        m = re.match(r"^The number of states generated: (\d+)", line)
        if m:
            r.generated = int(m.group(1))
            r.distinct = max(r.distinct, 1)
        m = re.match(r"^Error: (Invariant|Action property|Temporal propert(?:y|ies)|Deadlock) ?(\S*)", line)
        if m:
            r.invariant = (m.group(2) or m.group(1)).rstrip(".")
            in_trace = True
        if "is violated" in line and r.invariant is None:
            r.invariant = line.strip()
            in_trace = True
        if "Postcondition" in line and ("violated" in line.lower() or "is false" in line):
            r.invariant = "Postcondition"
        if in_trace:
            r.error_trace.append(line)
        m = re.match(r"^<(\w+) line \d+, col \d+ to line \d+, col \d+ of module (\w+)>: (\d+):(\d+)", line)
        if m:
            r.coverage[m.group(2) + "." + m.group(1)] = int(m.group(3))
    r.ok = ("No error has been found" in r.out) or (simulate is not None and p.returncode == 0)
    if not r.ok and r.invariant is None:
        raise Infra("TLC failed on %s/%s (rc=%d):\n%s" % (module, cfg, p.returncode, r.out[-3000:]))
    if r.invariant is not None and not allow_violation:
        raise Infra("TLC reports %s violated on %s/%s — the specification itself is inconsistent:\n%s"
                    % (r.invariant, module, cfg, "\n".join(r.error_trace[:80])))
    ctx.tlc_states += r.distinct
    ctx.tlc_transitions += r.generated
    ctx.tlc_runs.append(dict(module=module, cfg=cfg, distinct=r.distinct, generated=r.generated,
                             wall_s=round(r.wall, 2), cases=len(r.cases) + len(r.behaviours),
                             simulate=simulate))
    shutil.rmtree(d, ignore_errors=True)
    log("[tlc] %s/%s: %d distinct, %d generated, %d cases, %.1fs" % (module, cfg, r.distinct, r.generated, len(r.cases) + len(r.behaviours), r.wall))
    return r


def validate_trace(ctx, module, cfg, records, files=None, timeout=600, dfs=True):
    """Validates an ndjson trace (list of dicts) against a Trace*.tla spec. Returns (accepted, matched_prefix_len, out)."""
    body = "\n".join(json.dumps(r, sort_keys=True) for r in records) + "\n"
    fs = dict(files or {})
    fs["trace.ndjson"] = body
    r = tlc(ctx, module, cfg, workers=1, files=fs, timeout=timeout, allow_violation=True, dfs=dfs)
    hw = None
    for n in r.notes:
        if isinstance(n, dict) and "hw" in n:
            hw = n["hw"]
    accepted = r.ok and r.invariant is None
    return accepted, hw, r


# --------------------------------------------------------------------------------- context / verdict

class Ctx:
    def __init__(self, prop, tier, seed, level):
        self.prop, self.tier, self.seed, self.level = prop, tier, seed, level
        self.t0 = time.time()
        self.scratch = tempfile.mkdtemp(prefix="verif-%s-" % prop, dir=os.environ.get("VERIF_TMP", "/tmp"))
        self.tlc_states = 0
        self.tlc_transitions = 0
        self.tlc_runs = []
        self.evaluations = 0
        self.traces_validated = 0
        self.keys = set()          # canonical keys of distinct non-trivial cases
        self.samples = []
        self.violations = []       # (signature, detail)
        self.notes = []            # MODEL-DRIFT etc
        self.extra = {}
        self.rule = ""
        self.assumptions = []
        self.exhaustive = False
        self.programs = 0
        self.disagreements_checked = 0
        self.replay_only = None    # list of cases when replaying

    @property
    def quick(self):
        return self.tier == "quick"

    def count(self, case_key, nontrivial=True, sample=None):
        self.evaluations += 1
        if nontrivial:
            self.keys.add(case_key if isinstance(case_key, str) else json.dumps(case_key, sort_keys=True))
        if sample is not None and len(self.samples) < 5:
            self.samples.append(sample)

    def violation(self, signature, detail):
        self.violations.append((signature, detail))

    def drift(self, msg):
        self.notes.append(msg)
        if len(self.notes) <= 5:      # a diagnostic, never a verdict: a few lines are enough, the count goes to the evidence
            print("MODEL-DRIFT: property=%s %s" % (self.prop, msg), flush=True)

    def cleanup(self):
        shutil.rmtree(self.scratch, ignore_errors=True)


def load_findings():
    out = []
    p = os.path.join(VERIF, "known_findings.json")
    if os.path.exists(p):
        out += json.load(open(p))["findings"]
    d = os.path.join(VERIF, "findings.d")   # per-family files while a family is being built; merged later
    if os.path.isdir(d):
        for f in sorted(os.listdir(d)):
            if f.endswith(".json"):
                out += json.load(open(os.path.join(d, f)))["findings"]
    return out


def finish(ctx):
    """Applies the known-findings filter, writes replays and evidence, prints verdict lines, returns exit code."""
    known = {f["signature"]: f for f in load_findings()
             if f["property"] == ctx.prop and f.get("status") == "known"}
    seen_known = {}
    fresh = {}
    for sig, detail in ctx.violations:
        if sig in known:
            seen_known.setdefault(sig, detail)
        else:
            fresh.setdefault(sig, []).append(detail)
    for sig in sorted(seen_known):
        print("KNOWN-FINDING: property=%s %s — %s" % (ctx.prop, sig, known[sig]["what"]), flush=True)
    os.makedirs(os.path.join(VERIF, "replays"), exist_ok=True)
    rc = 0
    for sig in sorted(fresh):
        details = fresh[sig]
        h = hashlib.sha1((ctx.prop + sig).encode()).hexdigest()[:10]
        path = os.path.join(VERIF, "replays", "%s-%s.json" % (ctx.prop, h))
        with open(path, "w") as f:
            json.dump(dict(property=ctx.prop, signature=sig, tier=ctx.tier, seed=ctx.seed,
                           count=len(details), cases=details[:5],
                           rerun="./check %s --replay %s" % (ctx.prop, path)), f, indent=1, sort_keys=True)
        print("VIOLATION property=%s replay=%s" % (ctx.prop, path), flush=True)
        log("  signature: %s (%d case(s)); first: %s" % (sig, len(details), json.dumps(details[0])[:600]))
        rc = 1
    write_evidence(ctx, n_viol=len(fresh), known=sorted(seen_known))
    return rc


def write_evidence(ctx, n_viol, known):
    if ctx.replay_only is not None:
        return      # a replay re-executes saved cases only; the evidence of the last quick / thorough run stays
    cov = dict(
        evaluations=ctx.evaluations,
        distinct_nontrivial=len(ctx.keys),
        rule=ctx.rule,
        samples=ctx.samples[:5],
        states=ctx.tlc_states,
        transitions=ctx.tlc_transitions,
        traces_validated_against_impl=ctx.traces_validated,
        exhaustive=ctx.exhaustive,
        tlc_runs=ctx.tlc_runs,
        known_findings_observed=known,
        model_drift=ctx.notes[:20],
        model_drift_count=len(ctx.notes),
    )
    if ctx.level == "translation_validation":
        cov["programs"] = ctx.programs
        cov["disagreements_checked"] = ctx.disagreements_checked
    cov.update(ctx.extra)
    ev = dict(property_id=ctx.prop, tier=ctx.tier, seed=ctx.seed, level=ctx.level, coverage=cov,
              assumptions=ctx.assumptions, wall_s=round(time.time() - ctx.t0, 2), violations=n_viol)
    evdir = os.environ.get("VERIF_EVIDENCE_DIR", os.path.join(VERIF, "evidence"))   # mutation runs write elsewhere
    os.makedirs(evdir, exist_ok=True)
    with open(os.path.join(evdir, ctx.prop + ".json"), "w") as f:
        json.dump(ev, f, indent=1, sort_keys=True)


# ------------------------------------------------------------------------------------------ helpers

def run_vh(ctx, sub, cases, args=None, timeout=900, env=None):
    """Feeds cases (list of dicts) to `vh <sub>`; returns {id: observation}."""
    vh = build_vh()
    inp = os.path.join(ctx.scratch, "cases-%s-%d.ndjson" % (sub, len(os.listdir(ctx.scratch))))
    with open(inp, "w") as f:
        for c in cases:
            f.write(json.dumps(c) + "\n")
    e = {"VERIF_SCRATCH": ctx.scratch, "VERIF_SEED": str(ctx.seed)}
    e.update(env or {})
    # stdout (observations) and stderr (the code's own logging) are kept apart so log lines cannot tear a JSON line
    errp = inp + ".stderr"
    with open(errp, "w") as errf:
        try:
            p = subprocess.run([vh, sub, inp] + (args or []), cwd=ctx.scratch, env=dict(os.environ, **e), timeout=timeout,
                               stdout=subprocess.PIPE, stderr=errf, text=True, errors="replace")
        except subprocess.TimeoutExpired as ex:
            raise Infra("vh %s timed out after %ss" % (sub, timeout)) from ex
    obs = {}
    for line in (p.stdout or "").splitlines():
        if line.startswith("{"):
            try:
                o = json.loads(line)
            except Exception:
                continue
            obs[o.get("id")] = o
    if p.returncode != 0:
        raise Infra("vh %s failed rc=%d:\n%s\n%s" % (sub, p.returncode, (p.stdout or "")[-1500:], open(errp).read()[-3000:]))
    return obs


def main(engines, levels):
    import argparse
    ap = argparse.ArgumentParser()
    ap.add_argument("prop", nargs="?")
    ap.add_argument("--tier", default=os.environ.get("VERIF_TIER", "quick"), choices=["quick", "thorough"])
    ap.add_argument("--replay")
    ap.add_argument("--setup", action="store_true")
    a = ap.parse_args()
    if a.setup:
        try:
            sh("tlc -h >/dev/null 2>&1; java -version", check=False)
            build_plz()
            build_vh()
        except Infra as ex:
            log("setup failed: %s" % ex)
            return 2
        print("setup ok")
        return 0
    if a.prop not in engines:
        log("unknown property %s" % a.prop)
        return 2
    seed = int(os.environ.get("VERIF_SEED", "1") or 1)
    ctx = Ctx(a.prop, a.tier, seed, levels[a.prop])
    try:
        if a.replay:
            ctx.replay_only = json.load(open(a.replay))["cases"]
        engines[a.prop](ctx)
        rc = finish(ctx)
    except Infra as ex:
        log("INFRA: %s" % ex)
        rc = 2
    finally:
        ctx.cleanup()
    log("[%s %s] exit %d in %.1fs" % (a.prop, a.tier, rc, time.time() - ctx.t0))
    return rc
