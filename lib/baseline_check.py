#!/usr/bin/env python3
"""Runs the repository's test suite with the verif tag OFF and checks every test of BASELINE.json's stable_pass list passes.
usage: baseline_check.py [pkgpattern ...]   (default ./...)"""
import json
import os
import subprocess
import sys

base = json.load(open("/root/.vp/BASELINE.json"))
stable = set(base["stable_pass"])
pkgs = sys.argv[1:] or ["./..."]
env = dict(os.environ, GOFLAGS="-mod=mod", GOPROXY="off")
passed = set()
for mod in [".", "./test"]:
    if mod != "." and pkgs != ["./..."]:
        continue
    p = subprocess.run(["go", "test", "-json", "-vet=off", "-count=1", "-timeout", "25m"] + pkgs, cwd=os.path.join("/repo", mod),
                       env=env, stdout=subprocess.PIPE, stderr=subprocess.DEVNULL, text=True)
    for line in p.stdout.splitlines():
        try:
            e = json.loads(line)
        except Exception:
            continue
        if e.get("Action") == "pass" and e.get("Test"):
            passed.add("%s::%s" % (e["Package"], e["Test"]))
if pkgs == ["./..."]:
    want = stable
else:
    ran_pk = {t.split("::")[0] for t in passed}
    want = {t for t in stable if t.split("::")[0] in ran_pk}
# the suite itself rewrites these two tracked files (plzinit test appends to its BUILD, go adds a go directive): put them back
subprocess.run(["git", "-C", "/repo", "checkout", "--", "src/plzinit/BUILD", "test/go.mod"])
missing = sorted(want - passed)
print("stable tests expected %d, passed %d, missing %d" % (len(want), len(want & passed), len(missing)))
for m in missing[:40]:
    print("  MISSING", m)
sys.exit(1 if missing else 0)
