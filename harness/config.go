package main

import (
	"encoding/json"
	"fmt"
	iofs "io/fs"
	"os"
	"path/filepath"
	"strings"
	"time"

	"github.com/thought-machine/please/src/cli"
	"github.com/thought-machine/please/src/core"
)

// C39: every TLC-generated assignment of settings to configuration sources is rendered to config files that are
// served to the REAL core.ReadDefaultConfigFiles through an in-memory io/fs.FS under the real default names
// (/etc/please/plzconfig, $HOME/.config/please/plzconfig, <root>/.plzconfig, .plzconfig_<os>_<arch>,
// .plzconfig.local and their .<profile> siblings), so no real file is ever read; -o goes through the real
// Configuration.ApplyOverrides. The observation is the raw value of several single-valued and repeated options.
func init() { register("config", configEngine) }

type cfgFile struct {
	ID      int      `json:"id"`
	Base    string   `json:"base"`
	Profile string   `json:"profile"`
	Single  string   `json:"single"`
	Rep     []string `json:"rep"`
}

type cfgCase struct {
	ID       int       `json:"id"`
	Profiles []string  `json:"profiles"`
	Files    []cfgFile `json:"files"`
	Override struct {
		ID     int    `json:"id"`
		Single string `json:"single"`
		Rep    int    `json:"rep"`
	} `json:"override"`
}

type memFS map[string]string

type memFile struct {
	*strings.Reader
	name string
}

type memInfo struct {
	name string
	size int64
}

func (i memInfo) Name() string        { return filepath.Base(i.name) }
func (i memInfo) Size() int64         { return i.size }
func (i memInfo) Mode() iofs.FileMode { return 0644 }
func (i memInfo) ModTime() time.Time  { return time.Time{} }
func (i memInfo) IsDir() bool         { return false }
func (i memInfo) Sys() any            { return nil }

func (f memFile) Stat() (iofs.FileInfo, error) { return memInfo{f.name, f.Size()}, nil }
func (f memFile) Close() error                 { return nil }

var memOpened []string // names asked for, in order (diagnostic: the order the code reads its sources in)

func (m memFS) Open(name string) (iofs.File, error) {
	memOpened = append(memOpened, name)
	s, ok := m[name]
	if !ok {
		return nil, &iofs.PathError{Op: "open", Path: name, Err: os.ErrNotExist}
	}
	return memFile{strings.NewReader(s), name}, nil
}

const (
	cfgHome = "/verif-vhome"
	cfgRoot = "/verif-vrepo"
)

func cfgPath(base, profile string) string {
	var p string
	switch base {
	case "machine":
		p = "/etc/please/plzconfig"
	case "user":
		p = cfgHome + "/.config/please/plzconfig"
	case "repo":
		p = cfgRoot + "/.plzconfig"
	case "arch":
		p = cfgRoot + "/.plzconfig_" + core.OsArch
	case "local":
		p = cfgRoot + "/.plzconfig.local"
	default:
		panic("unknown base " + base)
	}
	if profile != "" {
		p += "." + profile
	}
	return p
}

// the repeated options that are exercised together (section, key)
var cfgRepOptions = [][2]string{{"build", "path"}, {"parse", "buildfilename"}, {"parse", "blacklistdirs"},
	{"please", "pluginrepo"}, {"cover", "fileextension"}}

func repVal(src, pos int) string { return fmt.Sprintf("/r%d_%d", src, pos) }

// renderConfig writes what source f says about every exercised option.
func renderConfig(f cfgFile, strOnly bool) string {
	sections := map[string][]string{}
	add := func(section, line string) { sections[section] = append(sections[section], line) }
	switch f.Single {
	case "set":
		add("build", fmt.Sprintf("lang = s%d", f.ID))
		if !strOnly {
			add("build", fmt.Sprintf("timeout = %d", 100+f.ID))
			add("please", fmt.Sprintf("numthreads = %d", 100+f.ID))
		}
	case "empty":
		add("build", "lang =")
	}
	for j, kind := range f.Rep {
		for _, o := range cfgRepOptions {
			if kind == "B" {
				add(o[0], o[1]) // a bare name: the blank value
			} else {
				add(o[0], o[1]+" = "+repVal(f.ID, j+1))
			}
		}
	}
	var b strings.Builder
	for _, s := range []string{"please", "parse", "build", "cover"} {
		if len(sections[s]) > 0 {
			b.WriteString("[" + s + "]\n" + strings.Join(sections[s], "\n") + "\n")
		}
	}
	return b.String()
}

func observeConfig(c *core.Configuration) map[string]any {
	return map[string]any{
		"single": map[string]any{
			"lang":       c.Build.Lang,
			"timeout":    int(time.Duration(c.Build.Timeout) / time.Second),
			"numthreads": c.Please.NumThreads,
		},
		"rep": map[string]any{
			"build.path":          nonNil(c.Build.Path),
			"parse.buildfilename": nonNil(c.Parse.BuildFileName),
			"parse.blacklistdirs": nonNil(c.Parse.BlacklistDirs),
			"please.pluginrepo":   nonNil(c.Please.PluginRepo),
			"cover.fileextension": nonNil(c.Cover.FileExtension),
		},
	}
}

func nonNil(s []string) []string {
	if s == nil {
		return []string{}
	}
	return s
}

func configEngine(args []string) error {
	defer flush()
	cli.InitLogging(0)
	os.Setenv("HOME", cfgHome)
	os.Unsetenv("XDG_CONFIG_DIRS")
	os.Unsetenv("XDG_CONFIG_HOME")
	os.Unsetenv("HTTP_PROXY")
	core.RepoRoot = cfgRoot
	// what the code yields when no source exists at all: the defaults (observed, not assumed)
	memOpened = nil
	def, err := core.ReadDefaultConfigFiles(memFS{}, []core.ConfigProfile{"p1"})
	if err != nil {
		return fmt.Errorf("reading defaults: %w", err)
	}
	d := observeConfig(def)
	d["id"] = -1
	d["opened"] = memOpened
	emit(d)
	return readCases(args[0], guardCases(func(raw json.RawMessage) error {
		var c cfgCase
		if err := json.Unmarshal(raw, &c); err != nil {
			return err
		}
		strOnly := c.Override.Single == "empty"
		for _, f := range c.Files {
			strOnly = strOnly || f.Single == "empty"
		}
		fsys := memFS{}
		for _, f := range c.Files {
			fsys[cfgPath(f.Base, f.Profile)] = renderConfig(f, strOnly)
		}
		profiles := make([]core.ConfigProfile, len(c.Profiles))
		for i, p := range c.Profiles {
			profiles[i] = core.ConfigProfile(p)
		}
		memOpened = nil
		config, err := core.ReadDefaultConfigFiles(fsys, profiles)
		if err != nil {
			emit(map[string]any{"id": c.ID, "error": "read: " + err.Error()})
			return nil
		}
		overrides := map[string]string{}
		switch c.Override.Single {
		case "set":
			overrides["build.lang"] = fmt.Sprintf("s%d", c.Override.ID)
			if !strOnly {
				overrides["build.timeout"] = fmt.Sprint(100 + c.Override.ID)
				overrides["please.numthreads"] = fmt.Sprint(100 + c.Override.ID)
			}
		case "empty":
			overrides["build.lang"] = ""
		}
		if c.Override.Rep > 0 {
			vals := []string{}
			for j := 1; j <= c.Override.Rep; j++ {
				vals = append(vals, repVal(c.Override.ID, j))
			}
			for _, o := range cfgRepOptions {
				overrides[o[0]+"."+o[1]] = strings.Join(vals, ",")
			}
		}
		// plz always calls ApplyOverrides (with the possibly empty -o map) after reading the files
		if err := config.ApplyOverrides(overrides); err != nil {
			emit(map[string]any{"id": c.ID, "error": "override: " + err.Error()})
			return nil
		}
		o := observeConfig(config)
		o["id"] = c.ID
		o["str_only"] = strOnly
		emit(o)
		return nil
	}))
}
