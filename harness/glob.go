package main

import (
	"encoding/json"
	"fmt"
	"os"
	"path/filepath"
	"sort"
	"strings"

	"github.com/thought-machine/please/src/cli"
	"github.com/thought-machine/please/src/core"
	"github.com/thought-machine/please/src/fs"
	"github.com/thought-machine/please/src/plz"
	"github.com/thought-machine/please/src/query"
)

// C21 "glob": materialises each TLC-enumerated tree on disk and calls the real fs.Globber exactly the way
// the asp builtin glob() does (src/parse/asp/builtins.go): a Globber over fs.HostFS with the configured
// BUILD file names, rootPath = the package name, excludes extended by the BUILD file names,
// include_symlinks = False (the builtin's default), cwd = repository root.
//
// C22 "pkgwalk": materialises each tree of directories / BUILD files, writes the [parse] blacklistdirs /
// experimentaldir settings to a real .plzconfig, reads it back with core.ReadConfigFiles and runs the real
// plz.FindAllBuildFiles from the repository root; plus query.containsPackage (the completion walker).
func init() {
	register("glob", globEngine)
	register("pkgwalk", pkgwalkEngine)
}

var globBuildFileNames = []string{"BUILD", "BUILD.plz"}

type globCase struct {
	ID    int      `json:"id"`
	Root  string   `json:"root"`  // "." = the root package, else the package directory
	Files []string `json:"files"` // relative to the package
	Pkgs  []string `json:"pkgs"`  // directories (relative to the package) holding a BUILD file
	Inc   []string `json:"inc"`
	Exc   []string `json:"exc"`
	Hid   bool     `json:"hid"`
}

func touch(path string) error {
	if err := os.MkdirAll(filepath.Dir(path), 0o755); err != nil {
		return err
	}
	return os.WriteFile(path, []byte("x\n"), 0o644)
}

func scratchBase(sub string) (string, error) {
	base := os.Getenv("VERIF_SCRATCH")
	if base == "" {
		base = os.TempDir()
	}
	return os.MkdirTemp(base, sub)
}

func globEngine(args []string) error {
	defer flush()
	cli.InitLogging(1)
	base, err := scratchBase("glob-trees-")
	if err != nil {
		return err
	}
	defer os.RemoveAll(base)
	trees := map[string]string{}
	return readCases(args[0], func(raw json.RawMessage) error {
		var c globCase
		if err := json.Unmarshal(raw, &c); err != nil {
			return err
		}
		key := c.Root + "\x00" + strings.Join(c.Files, "\x01") + "\x00" + strings.Join(c.Pkgs, "\x01")
		dir, ok := trees[key]
		if !ok {
			dir = filepath.Join(base, fmt.Sprintf("t%d", len(trees)))
			prefix := ""
			if c.Root != "." {
				prefix = c.Root + "/"
			}
			if err := touch(filepath.Join(dir, prefix+"BUILD")); err != nil {
				return err
			}
			for _, f := range c.Files {
				if err := touch(filepath.Join(dir, prefix+f)); err != nil {
					return err
				}
			}
			for _, p := range c.Pkgs {
				if err := touch(filepath.Join(dir, prefix+p, "BUILD")); err != nil {
					return err
				}
			}
			trees[key] = dir
		}
		if err := os.Chdir(dir); err != nil {
			return err
		}
		pkgName := c.Root
		if pkgName == "." {
			pkgName = "" // the root package's name; Globber.Glob turns it into "."
		}
		res, panicked := runGlob(pkgName, c.Inc, c.Exc, c.Hid, nil)
		sort.Strings(res)
		// the same call on a Globber that has already served the package (asp keeps one Globber per BUILD file): an
		// earlier glob(["**"]) with the other `hidden` value must not change what this call returns
		primed, _ := runGlob(pkgName, c.Inc, c.Exc, c.Hid, &c.Hid)
		sort.Strings(primed)
		emit(map[string]any{"id": c.ID, "res": res, "panic": panicked, "primed": primed})
		return nil
	})
}

func runGlob(pkgName string, inc, exc []string, hidden bool, primeOpposite *bool) (res []string, panicked string) {
	defer func() {
		if r := recover(); r != nil {
			res, panicked = []string{}, fmt.Sprint(r)
		}
	}()
	exclude := append(append([]string{}, exc...), globBuildFileNames...)
	g := fs.NewGlobber(fs.HostFS, globBuildFileNames)
	if primeOpposite != nil {
		g.Glob(pkgName, []string{"**"}, globBuildFileNames, !*primeOpposite, false)
	}
	res = g.Glob(pkgName, inc, exclude, hidden, false)
	if res == nil {
		res = []string{}
	}
	return res, ""
}

type walkCase struct {
	ID   int      `json:"id"`
	Pkgs []string `json:"pkgs"` // directories holding a BUILD file ("" = repository root)
	Dir  string   `json:"dir"`  // the dir of //dir/... ("" = //...)
	Bl   []string `json:"bl"`
	Ex   []string `json:"ex"`
	Bd   []string `json:"bd"` // directories (without a BUILD file) holding a sub-directory named BUILD
}

func pkgwalkEngine(args []string) error {
	defer flush()
	cli.InitLogging(1)
	base, err := scratchBase("walk-trees-")
	if err != nil {
		return err
	}
	defer os.RemoveAll(base)
	trees := map[string]string{}
	configs := map[string]*core.Configuration{}
	return readCases(args[0], func(raw json.RawMessage) error {
		var c walkCase
		if err := json.Unmarshal(raw, &c); err != nil {
			return err
		}
		key := strings.Join(c.Pkgs, "\x01") + "\x02" + strings.Join(c.Bd, "\x01")
		dir, ok := trees[key]
		if !ok {
			dir = filepath.Join(base, fmt.Sprintf("t%d", len(trees)))
			if err := os.MkdirAll(dir, 0o755); err != nil {
				return err
			}
			for _, p := range c.Pkgs {
				if err := touch(filepath.Join(dir, p, "BUILD")); err != nil {
					return err
				}
			}
			for _, p := range c.Bd {
				if err := touch(filepath.Join(dir, p, "BUILD", "notes.txt")); err != nil {
					return err
				}
			}
			trees[key] = dir
		}
		if err := os.Chdir(dir); err != nil {
			return err
		}
		config, err := walkConfig(base, configs, c.Bl, c.Ex)
		if err != nil {
			return err
		}
		if _, err := os.Lstat(filepath.Join(".", c.Dir)); err != nil {
			return fmt.Errorf("case %d: dir %q does not exist in the tree", c.ID, c.Dir)
		}
		found := []string{}
		for name := range plz.FindAllBuildFiles(config, c.Dir, "") {
			d := filepath.Dir(name)
			if d == "." {
				d = ""
			}
			found = append(found, d)
		}
		sort.Strings(found)
		o := map[string]any{"id": c.ID, "found": found}
		if c.Dir != "" {
			o["contains"] = query.VerifContainsPackage(config, c.Dir)
		}
		emit(o)
		return nil
	})
}

// walkConfig writes the settings to a real .plzconfig and reads it back with the real config reader
// (once per distinct configuration).
func walkConfig(base string, configs map[string]*core.Configuration, bl, ex []string) (*core.Configuration, error) {
	key := strings.Join(bl, "\x01") + "\x00" + strings.Join(ex, "\x01")
	if config, ok := configs[key]; ok {
		return config, nil
	}
	var b strings.Builder
	b.WriteString("[parse]\n")
	for _, x := range bl {
		fmt.Fprintf(&b, "blacklistdirs = %s\n", x)
	}
	for _, x := range ex {
		fmt.Fprintf(&b, "experimentaldir = %s\n", x)
	}
	file := filepath.Join(base, fmt.Sprintf("config-%d", len(configs)), ".plzconfig")
	if err := os.MkdirAll(filepath.Dir(file), 0o755); err != nil {
		return nil, err
	}
	if err := os.WriteFile(file, []byte(b.String()), 0o644); err != nil {
		return nil, err
	}
	config, err := core.ReadConfigFiles(fs.HostFS, []string{file}, nil)
	if err != nil {
		return nil, fmt.Errorf("reading generated .plzconfig: %w", err)
	}
	if fmt.Sprint(config.Parse.BlacklistDirs) != fmt.Sprint(bl) || fmt.Sprint(config.Parse.ExperimentalDir) != fmt.Sprint(ex) {
		return nil, fmt.Errorf("config did not round-trip: %v %v vs %v %v", config.Parse.BlacklistDirs, config.Parse.ExperimentalDir, bl, ex)
	}
	configs[key] = config
	return config, nil
}
