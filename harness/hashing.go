package main

import (
	"encoding/hex"
	"encoding/json"
	"fmt"
	"os"
	"path/filepath"
	"sort"

	"github.com/thought-machine/please/src/build"
	"github.com/thought-machine/please/src/cli"
	"github.com/thought-machine/please/src/core"
)

// C08 / C09 (spec/Hashing.tla).
//
//	hashing-rule: each case carries one target record of the spec; it is built as a real core.BuildTarget
//	              through the setters the parser uses (in populateTarget's order) and hashed once with the
//	              real build.RuleHash. Pairs are compared by the driver.
//	hashing-tree: each case carries one file tree; it is materialised on disk and hashed with the real
//	              fs.PathHasher of every configured hash function.
func init() {
	register("hashing-rule", hashingRuleEngine)
	register("hashing-tree", hashingTreeEngine)
}

// bstr is a string that travels as a JSON array of byte codes (the spec's strings are byte sequences).
type bstr string

func (b *bstr) UnmarshalJSON(data []byte) error {
	var xs []int
	if err := json.Unmarshal(data, &xs); err != nil {
		return err
	}
	buf := make([]byte, len(xs))
	for i, x := range xs {
		if x < 0 || x > 255 {
			return fmt.Errorf("not a byte: %d", x)
		}
		buf[i] = byte(x)
	}
	*b = bstr(buf)
	return nil
}

type hLabel struct {
	R bstr `json:"r"` // subrepo, "" = host repository
	P bstr `json:"p"`
	S bstr `json:"s"`
}

type hInput struct {
	T string `json:"t"` // f = file in the package, s = tool on PATH, l = build label
	R bstr   `json:"r"`
	P bstr   `json:"p"`
	S bstr   `json:"s"`
}

type hKV struct {
	K bstr `json:"k"`
	V bstr `json:"v"`
}

type hGroup[T any] struct {
	K bstr `json:"k"`
	V []T  `json:"v"`
}

type hTarget struct {
	Label         hLabel           `json:"label"`
	Deps          []hLabel         `json:"deps"`
	Visibility    []hLabel         `json:"visibility"`
	Hashes        []bstr           `json:"hashes"`
	Srcs          []hInput         `json:"srcs"`
	NamedSrcs     []hGroup[hInput] `json:"named_srcs"`
	Outs          []bstr           `json:"outs"`
	NamedOuts     []hGroup[bstr]   `json:"named_outs"`
	Licences      []bstr           `json:"licences"`
	OptionalOuts  []bstr           `json:"optional_outs"`
	Labels        []bstr           `json:"labels"`
	Secrets       []bstr           `json:"secrets"`
	NamedSecrets  []hGroup[bstr]   `json:"named_secrets"`
	Binary        bool             `json:"binary"`
	Subrepo       bool             `json:"subrepo"`
	Sandbox       bool             `json:"sandbox"`
	Cmd           bstr             `json:"cmd"`
	Cmds          []hKV            `json:"cmds"`
	NeedsTransDep bool             `json:"needs_transitive_deps"`
	OutputIsCompl bool             `json:"output_is_complete"`
	Stamp         bool             `json:"stamp"`
	Filegroup     bool             `json:"filegroup"`
	TextFile      bool             `json:"text_file"`
	RemoteFile    bool             `json:"remote_file"`
	Local         bool             `json:"local"`
	SrcListFiles  bool             `json:"src_list_files"`
	ExitOnError   bool             `json:"exit_on_error"`
	Requires      []bstr           `json:"requires"`
	Provides      []hGroup[hLabel] `json:"provides"`
	PreBuild      bool             `json:"pre_build"`
	PostBuild     bool             `json:"post_build"`
	PassEnv       []bstr           `json:"pass_env"`
	Environ       []hKV            `json:"environ"`
	OutputDirs    []bstr           `json:"output_dirs"`
	EntryPoints   []hKV            `json:"entry_points"`
	Env           []hKV            `json:"env"`
	Content       bstr             `json:"content"`
	Tools         []hInput         `json:"tools"`
	NamedTools    []hGroup[hInput] `json:"named_tools"`
}

type hashingRuleCase struct {
	ID int     `json:"id"`
	T  hTarget `json:"t"`
}

type hPreBuild struct{}

func (hPreBuild) String() string               { return "pre" }
func (hPreBuild) Call(*core.BuildTarget) error { return nil }

type hPostBuild struct{}

func (hPostBuild) String() string                       { return "post" }
func (hPostBuild) Call(*core.BuildTarget, string) error { return nil }

func hMustLabel(l hLabel) core.BuildLabel {
	label, err := core.TryNewBuildLabel(string(l.P), string(l.S))
	if err != nil {
		panic(err)
	}
	label.Subrepo = string(l.R) // what parseLabelInPackage leaves for ///subrepo//pkg:name
	return label
}

// hBuildTarget mirrors createTarget / populateTarget of src/parse/asp/targets.go: same setters, same order.
func hBuildTarget(state *core.BuildState, t *hTarget) *core.BuildTarget {
	pkg := core.NewPackage(string(t.Label.P))
	input := func(in hInput) core.BuildInput {
		switch in.T {
		case "f":
			return core.NewFileLabel(string(in.S), pkg)
		case "s":
			return core.SystemPathLabel{Name: string(in.S), Path: state.Config.Path()}
		case "l":
			return hMustLabel(hLabel{R: in.R, P: in.P, S: in.S})
		}
		panic("unknown input kind " + in.T)
	}
	target := core.NewBuildTarget(hMustLabel(t.Label))
	// createTarget
	target.IsBinary = t.Binary
	target.IsSubrepo = t.Subrepo
	target.NeedsTransitiveDependencies = t.NeedsTransDep
	target.OutputIsComplete = t.OutputIsCompl
	target.Sandbox = t.Sandbox
	target.IsRemoteFile = t.RemoteFile
	target.IsTextFile = t.TextFile
	target.Local = t.Local
	target.ExitOnError = t.ExitOnError
	target.SrcListFiles = t.SrcListFiles
	for _, o := range t.OutputDirs {
		target.AddOutputDirectory(string(o))
	}
	if len(t.PassEnv) > 0 {
		l := make([]string, len(t.PassEnv))
		for i, e := range t.PassEnv {
			l[i] = string(e)
		}
		target.PassEnv = &l
	}
	target.Stamp = t.Stamp
	target.IsFilegroup = t.Filegroup
	if target.IsBinary {
		target.AddLabel("bin")
	}
	if target.IsRemoteFile {
		target.AddLabel("remote")
	}
	if len(t.Cmds) > 0 {
		for _, kv := range t.Cmds {
			target.AddCommand(string(kv.K), string(kv.V))
		}
	} else {
		target.Command = string(t.Cmd)
	}
	// populateTarget
	if target.IsTextFile {
		target.FileContent = string(t.Content)
	}
	for _, s := range t.Srcs {
		target.AddSource(input(s))
	}
	for _, g := range t.NamedSrcs {
		for _, s := range g.V {
			target.AddNamedSource(string(g.K), input(s))
		}
	}
	for _, s := range t.Tools {
		target.AddTool(input(s))
	}
	for _, g := range t.NamedTools {
		for _, s := range g.V {
			target.AddNamedTool(string(g.K), input(s))
		}
	}
	for _, o := range t.Outs {
		target.AddOutput(string(o))
	}
	for _, g := range t.NamedOuts {
		for _, o := range g.V {
			target.AddNamedOutput(string(g.K), string(o))
		}
	}
	for _, o := range t.OptionalOuts {
		target.AddOptionalOutput(string(o))
	}
	for _, d := range t.Deps {
		target.AddMaybeExportedDependency(hMustLabel(d), false, false, false, false)
	}
	for _, l := range t.Labels {
		target.AddLabel(string(l))
	}
	for _, h := range t.Hashes {
		target.AddHash(string(h))
	}
	for _, l := range t.Licences {
		target.AddLicence(string(l))
	}
	for _, r := range t.Requires {
		target.AddRequire(string(r))
	}
	for _, v := range t.Visibility {
		target.Visibility = append(target.Visibility, core.BuildLabel{PackageName: string(v.P), Name: string(v.S)})
	}
	for _, kv := range t.EntryPoints {
		target.AddEntryPoint(string(kv.K), string(kv.V))
	}
	env := make(map[string]string, len(t.Env))
	for _, kv := range t.Env {
		env[string(kv.K)] = string(kv.V)
	}
	target.Env = env
	for _, s := range t.Secrets {
		target.AddSecret(string(s))
	}
	for _, g := range t.NamedSecrets {
		for _, s := range g.V {
			target.AddNamedSecret(string(g.K), string(s))
		}
	}
	for _, g := range t.Provides {
		ls := make([]core.BuildLabel, len(g.V))
		for i, l := range g.V {
			ls[i] = hMustLabel(l)
		}
		target.AddProvide(string(g.K), ls)
	}
	if t.PreBuild {
		target.PreBuildFunction = hPreBuild{}
	}
	if t.PostBuild {
		target.PostBuildFunction = hPostBuild{}
	}
	return target
}

// hQuiet keeps please's own log (warnings about fallback configs, the idle-time goroutine dump of
// forwardResults) off stderr, which the driver merges with the observations.
func hQuiet() { cli.InitLogging(1) }

func hashingRuleEngine(args []string) error {
	defer flush()
	hQuiet()
	state := core.NewDefaultBuildState()
	touched := map[string]bool{}
	return readCases(args[0], func(raw json.RawMessage) error {
		var c hashingRuleCase
		if err := json.Unmarshal(raw, &c); err != nil {
			return err
		}
		obs := map[string]any{"id": c.ID}
		func() {
			defer func() {
				if r := recover(); r != nil {
					obs["error"] = fmt.Sprint(r)
				}
			}()
			// the process environment the target's pass_env reads: exactly `environ`
			for _, e := range c.T.PassEnv {
				touched[string(e)] = true
			}
			for k := range touched {
				os.Unsetenv(k)
			}
			for _, kv := range c.T.Environ {
				if err := os.Setenv(string(kv.K), string(kv.V)); err != nil {
					panic(err)
				}
				touched[string(kv.K)] = true
			}
			target := hBuildTarget(state, &c.T) // a fresh target: RuleHash memoises on the target
			obs["hash"] = hex.EncodeToString(build.RuleHash(state, target, false, false))
		}()
		emit(obs)
		return nil
	})
}

// ---- trees

type hNode struct {
	K  string `json:"k"` // f file, l symlink, d directory
	C  bstr   `json:"c"` // content / link target
	Es []struct {
		N bstr  `json:"n"`
		T hNode `json:"t"`
	} `json:"es"`
}

type hashingTreeCase struct {
	ID   int   `json:"id"`
	Tree hNode `json:"tree"`
}

func hMaterialise(path string, n *hNode) error {
	switch n.K {
	case "f":
		return os.WriteFile(path, []byte(n.C), 0o644)
	case "l":
		return os.Symlink(string(n.C), path)
	case "d":
		if err := os.Mkdir(path, 0o755); err != nil {
			return err
		}
		for i := range n.Es {
			if err := hMaterialise(filepath.Join(path, string(n.Es[i].N)), &n.Es[i].T); err != nil {
				return err
			}
		}
		return nil
	}
	return fmt.Errorf("unknown node kind %q", n.K)
}

func hashingTreeEngine(args []string) error {
	defer flush()
	hQuiet()
	casesPath, err := filepath.Abs(args[0]) // the working directory changes below
	if err != nil {
		return err
	}
	root, err := os.MkdirTemp(os.Getenv("VERIF_SCRATCH"), "hashing-trees-")
	if err != nil {
		return err
	}
	defer os.RemoveAll(root)
	if root, err = filepath.EvalSymlinks(root); err != nil {
		return err
	}
	// please runs with the repository root as working directory and hashes root-relative paths
	if err := os.Chdir(root); err != nil {
		return err
	}
	core.RepoRoot = root
	state := core.NewDefaultBuildState() // its hashers are rooted at core.RepoRoot
	algos := []string{"sha1", "sha256", "blake3", "xxhash", "crc32", "crc64"}
	sort.Strings(algos)
	return readCases(casesPath, func(raw json.RawMessage) error {
		var c hashingTreeCase
		if err := json.Unmarshal(raw, &c); err != nil {
			return err
		}
		name := fmt.Sprintf("n%d", c.ID) // a fresh path per tree: the hasher memoises by path
		if err := hMaterialise(filepath.Join(root, name), &c.Tree); err != nil {
			return err
		}
		hs := map[string]string{}
		obs := map[string]any{"id": c.ID, "h": hs}
		for _, algo := range algos {
			h, err := state.Hasher(algo).Hash(name, false, false, false)
			if err != nil {
				obs["error"] = fmt.Sprintf("%s: %s", algo, err)
				break
			}
			hs[algo] = hex.EncodeToString(h)
		}
		emit(obs)
		return os.RemoveAll(filepath.Join(root, name))
	})
}
