package main

import (
	"bytes"
	"encoding/json"
	"encoding/xml"
	"errors"
	"fmt"
	"os"
	"path/filepath"
	"sort"
	"strings"
	"time"

	"github.com/thought-machine/please/src/cli"
	"github.com/thought-machine/please/src/core"
	"github.com/thought-machine/please/src/test"
)

// C27: every TLC-generated tuple of runs is aggregated, in arrival (index) order, by the real
// core.TestCoverage.Aggregate, then every run is aggregated a second time (idempotence) using the very same
// run objects (so that a merge which mutated its inputs shows up), and the first two runs are also merged
// directly with core.MergeCoverageLines in both orders.
func init() { register("coverage", coverageEngine) }

type covFile struct {
	Present bool  `json:"present"`
	Lines   []int `json:"lines"`
}

type covCase struct {
	ID   int                  `json:"id"`
	Runs []map[string]covFile `json:"runs"`
}

// guarded runs fn; a panic of the real code becomes an observation instead of killing the harness.
func guarded(id int, fn func()) {
	defer func() {
		if r := recover(); r != nil {
			emit(map[string]any{"id": id, "panic": fmt.Sprint(r)})
		}
	}()
	fn()
}

// guardCases wraps a per-case function so that a panic is reported for that case and the run goes on.
func guardCases(fn func(raw json.RawMessage) error) func(raw json.RawMessage) error {
	return func(raw json.RawMessage) (err error) {
		var probe struct {
			ID int `json:"id"`
		}
		json.Unmarshal(raw, &probe)
		guarded(probe.ID, func() { err = fn(raw) })
		return err
	}
}

func toLines(l []int) []core.LineCoverage {
	ret := make([]core.LineCoverage, len(l))
	for i, x := range l {
		ret[i] = core.LineCoverage(x)
	}
	return ret
}

func fromLines(l []core.LineCoverage) []int {
	ret := make([]int, len(l))
	for i, x := range l {
		ret[i] = int(x)
	}
	return ret
}

func projectCoverage(c *core.TestCoverage) map[string]covFile {
	ret := map[string]covFile{}
	for f, l := range c.Files {
		ret[f] = covFile{Present: true, Lines: fromLines(l)}
	}
	return ret
}

func coverageEngine(args []string) error {
	defer flush()
	return readCases(args[0], guardCases(func(raw json.RawMessage) error {
		var c covCase
		if err := json.Unmarshal(raw, &c); err != nil {
			return err
		}
		runs := make([]*core.TestCoverage, len(c.Runs))
		for i, r := range c.Runs {
			cov := core.NewTestCoverage()
			label := core.BuildLabel{PackageName: "p", Name: fmt.Sprintf("t%d", i+1)}
			names := []string{}
			for f := range r {
				names = append(names, f)
			}
			sort.Strings(names)
			for _, f := range names {
				if r[f].Present {
					cov.Files[f] = toLines(r[f].Lines)
				}
			}
			// as the real parsers do (src/test/{go,xml,istanbul}_coverage.go): the per-test entry IS the run's file map
			cov.Tests[label] = cov.Files
			runs[i] = cov
		}
		// the accumulator starts as the zero value, as in doFlakeRun / the results aggregation of plz
		acc := &core.TestCoverage{}
		steps := []map[string]covFile{}
		for _, r := range runs {
			acc.Aggregate(r)
			steps = append(steps, projectCoverage(acc))
		}
		once := projectCoverage(acc)
		for _, r := range runs {
			acc.Aggregate(r)
		}
		twice := projectCoverage(acc)
		// inputs must still be what was generated (a merge must not write through to its arguments)
		inputsIntact := true
		for i, r := range c.Runs {
			for f, v := range r {
				got, present := runs[i].Files[f]
				if present != v.Present || (present && fmt.Sprint(fromLines(got)) != fmt.Sprint(v.Lines)) {
					inputsIntact = false
				}
			}
		}
		// the per-test entries of the aggregate (Coverage.tla PerTest): entry i must be run i's own coverage
		perTest := make([]map[string]covFile, len(runs))
		for i := range runs {
			label := core.BuildLabel{PackageName: "p", Name: fmt.Sprintf("t%d", i+1)}
			perTest[i] = map[string]covFile{}
			for f, l := range acc.Tests[label] {
				perTest[i][f] = covFile{Present: true, Lines: fromLines(l)}
			}
		}
		o := map[string]any{"id": c.ID, "once": once, "twice": twice, "steps": steps, "inputs_intact": inputsIntact,
			"tests": len(acc.Tests), "pertest": perTest}
		// direct pairwise merge of the first file of the first two runs
		if len(c.Runs) >= 2 {
			direct := map[string]any{}
			for f, a := range c.Runs[0] {
				b := c.Runs[1][f]
				if a.Present && b.Present {
					x, y := toLines(a.Lines), toLines(b.Lines)
					direct[f] = map[string]any{
						"ab": fromLines(core.MergeCoverageLines(x, y)),
						"ba": fromLines(core.MergeCoverageLines(y, x)),
						"aa": fromLines(core.MergeCoverageLines(x, x)),
					}
				}
			}
			o["direct"] = direct
		}
		emit(o)
		return nil
	}))
}

// ---------------------------------------------------------------------------------------------------- C26
//
// Every TLC-generated terminal behaviour of the retry loop (TestResults.tla) is rendered BY THIS HARNESS to
// JUnit XML (three structures) and to `go test -v` text, one file per attempt; each file goes through the real
// parser (test.VerifParseResults = parseTestResults, and test.VerifParseTestOutput = parseTestOutput with the exit
// status the attempt would have had), the attempts are accumulated with the real TestSuite.Add and the real
// TestCases.AllSucceeded decides whether another attempt is made (the loop itself mirrors doFlakeRun); the result
// is handed to a real BuildTarget (AddTestResults) and the real counters are read back. The final results are also
// written with the real SerialiseResultsToXML and parsed again (what plz reports), and the whole outcome set is
// additionally rendered as ONE file that uses flakyFailure/flakyError/rerunFailure/rerunError children.
func init() { register("testresults", testResultsEngine) }

type trEntry struct {
	Cls  string `json:"cls"`
	Name string `json:"name"`
	Out  string `json:"out"`
}

type trCase struct {
	ID       int         `json:"id"`
	Allow    int         `json:"allow"`
	Runs     [][]trEntry `json:"runs"`
	Layouts  []string    `json:"layouts"`
	InlineOK bool        `json:"inline_ok"`
}

// model name -> what is written into the files: XML metacharacters, quotes, an already-escaped-looking entity
var trNames = map[string]string{"n1": `a<b&c>d`, "n2": `q"e'f&amp;g`}
// c0 = the case carries no classname at all (the attribute is omitted)
var trClasses = map[string]string{"c0": ``, "c1": `pkg.K<1>`, "c2": `pkg.K&"2'`}

func trGoName(e trEntry) string { return "Test" + trClasses[e.Cls] + "_" + trNames[e.Name] }

func xmlEsc(s string) string {
	var b bytes.Buffer
	xml.EscapeText(&b, []byte(s))
	return b.String()
}

func trXMLCase(e trEntry, body string) string {
	cls := ""
	if trClasses[e.Cls] != "" {
		cls = fmt.Sprintf(` classname="%s"`, xmlEsc(trClasses[e.Cls]))
	}
	return fmt.Sprintf(`<testcase name="%s"%s time="0.010">%s</testcase>`+"\n", xmlEsc(trNames[e.Name]), cls, body)
}

func trXMLBody(out string) string {
	switch out {
	case "fail":
		return `<failure type="AssertionError" message="1 != 2 &amp; so on">trace &lt;here&gt;</failure>`
	case "error":
		return `<error type="RuntimeError" message="boom">trace</error>`
	case "skip":
		return `<skipped message="not today"/>`
	}
	return ""
}

func trSuite(name string, n int, inner string) string {
	return fmt.Sprintf(`<testsuite name="%s" tests="%d" time="0.1">`+"\n%s</testsuite>\n", name, n, inner)
}

func trRenderXML(entries []trEntry, layout string) []byte {
	cases := make([]string, len(entries))
	for i, e := range entries {
		cases[i] = trXMLCase(e, trXMLBody(e.Out))
	}
	return trWrapXML(cases, layout)
}

func trWrapXML(cases []string, layout string) []byte {
	hdr := `<?xml version="1.0" encoding="UTF-8"?>` + "\n"
	switch layout {
	case "flat":
		return []byte(hdr + trSuite("s", len(cases), strings.Join(cases, "")))
	case "suites":
		var a, b []string
		for i, c := range cases {
			if i%2 == 0 {
				a = append(a, c)
			} else {
				b = append(b, c)
			}
		}
		body := trSuite("s1", len(a), strings.Join(a, ""))
		if len(b) > 0 {
			body += trSuite("s2", len(b), strings.Join(b, ""))
		}
		return []byte(hdr + "<testsuites>\n" + body + "</testsuites>\n")
	case "nested":
		outer, inner := cases[:1], cases[1:]
		if len(cases) == 1 {
			outer, inner = nil, cases
		}
		body := strings.Join(outer, "") + trSuite("inner", len(inner), strings.Join(inner, ""))
		return []byte(hdr + "<testsuites>\n" + trSuite("outer", len(cases), body) + "</testsuites>\n")
	}
	panic("unknown layout " + layout)
}

func trRenderGo(entries []trEntry) []byte {
	var b strings.Builder
	failed := false
	for _, e := range entries {
		n := trGoName(e)
		fmt.Fprintf(&b, "=== RUN   %s\n", n)
		switch e.Out {
		case "pass":
			fmt.Fprintf(&b, "--- PASS: %s (0.01s)\n", n)
		case "skip":
			fmt.Fprintf(&b, "    x_test.go:7: not today\n--- SKIP: %s (0.00s)\n", n)
		default: // go test has no outcome distinct from FAIL for an abnormal error
			failed = true
			fmt.Fprintf(&b, "    x_test.go:9: 1 != 2\n--- FAIL: %s (0.02s)\n", n)
		}
	}
	if failed {
		b.WriteString("FAIL\nexit status 1\nFAIL\texample.com/pkg\t0.031s\n")
	} else {
		b.WriteString("PASS\nok  \texample.com/pkg\t0.031s\n")
	}
	return []byte(b.String())
}

// one file for the whole behaviour: each identity once, its executions as flaky*/rerun* children
func trRenderInline(c trCase, layout string) []byte {
	type acc struct {
		e    trEntry
		outs []string
	}
	order := []string{}
	byID := map[string]*acc{}
	for _, run := range c.Runs {
		for _, e := range run {
			k := e.Cls + "/" + e.Name
			if byID[k] == nil {
				byID[k] = &acc{e: e}
				order = append(order, k)
			}
			byID[k].outs = append(byID[k].outs, e.Out)
		}
	}
	cases := []string{}
	for _, k := range order {
		a := byID[k]
		has := func(o string) bool {
			for _, x := range a.outs {
				if x == o {
					return true
				}
			}
			return false
		}
		body := ""
		switch {
		case has("skip"): // only skips by inline_ok
			body = trXMLBody("skip")
		case has("pass"):
			for _, o := range a.outs {
				if o == "fail" {
					body += `<flakyFailure type="AssertionError" message="m">trace</flakyFailure>`
				} else if o == "error" {
					body += `<flakyError type="RuntimeError" message="m">trace</flakyError>`
				}
			}
		default:
			first := true
			for _, o := range a.outs {
				if first {
					body += trXMLBody(o)
					first = false
				} else if o == "fail" {
					body += `<rerunFailure type="AssertionError" message="m" time="0.01">trace</rerunFailure>`
				} else {
					body += `<rerunError type="RuntimeError" message="m">trace</rerunError>`
				}
			}
		}
		cases = append(cases, trXMLCase(a.e, body))
	}
	return trWrapXML(cases, layout)
}

var trRevXML, trRevGo map[string][2]string

func trInitRev() {
	trRevXML, trRevGo = map[string][2]string{}, map[string][2]string{}
	for c, cv := range trClasses {
		for n, nv := range trNames {
			trRevXML[cv+"\x00"+nv] = [2]string{c, n}
			trRevGo["\x00"+trGoName(trEntry{Cls: c, Name: n})] = [2]string{c, n}
		}
	}
}

func trObserve(s *core.TestSuite) map[string]any {
	ids := [][2]string{}
	execs := []string{}
	for _, tc := range s.TestCases {
		cls := tc.ClassName
		if cls == "pkg.the_test" { // the serialiser fills an empty classname with <package>.<target>
			cls = ""
		}
		k := cls + "\x00" + tc.Name
		if id, ok := trRevXML[k]; ok {
			ids = append(ids, id)
		} else if id, ok := trRevGo[k]; ok {
			ids = append(ids, id)
		} else {
			ids = append(ids, [2]string{"?" + tc.ClassName, "?" + tc.Name})
		}
		x := ""
		for _, e := range tc.Executions {
			switch {
			case e.Failure != nil:
				x += "F"
			case e.Error != nil:
				x += "E"
			case e.Skip != nil:
				x += "S"
			default:
				x += "P"
			}
		}
		execs = append(execs, x)
	}
	return map[string]any{
		"tests": s.Tests(), "passes": s.Passes(), "failures": s.Failures(), "errors": s.Errors(), "skips": s.Skips(),
		"flaky": s.FlakyPasses(), "target_passes": s.TestCases.AllSucceeded(), "ids": ids, "execs": execs,
	}
}

func trNewTarget() *core.BuildTarget {
	t := core.NewBuildTarget(core.BuildLabel{PackageName: "pkg", Name: "the_test"})
	t.Test = new(core.TestFields)
	t.StartTestSuite()
	return t
}

// trLoop mirrors doFlakeRun over the rendered attempts; parse(i) yields the parsed suite of attempt i.
func trLoop(c trCase, parse func(i int) (core.TestSuite, error)) map[string]any {
	results := core.TestSuite{}
	used := 0
	for flakes := 1; flakes <= c.Allow && flakes <= len(c.Runs); flakes++ {
		suite, err := parse(flakes - 1)
		if err != nil {
			return map[string]any{"parse_error": err.Error()}
		}
		used++
		results.Add(suite.TestCases...)
		if suite.TestCases.AllSucceeded() {
			break
		}
	}
	target := trNewTarget()
	target.AddTestResults(results)
	o := trObserve(target.Test.Results)
	o["attempts_used"] = used
	// what plz writes out: the real serialiser, parsed again by the real parser
	if back, err := test.VerifParseResults([][]byte{test.SerialiseResultsToXML(target, true, true)}); err != nil {
		o["roundtrip"] = map[string]any{"parse_error": err.Error()}
	} else {
		again := core.TestSuite{}
		again.Add(back.TestCases...)
		o["roundtrip"] = trObserve(&again)
	}
	return o
}

// testresults-render writes, for the e2e binding, the per-attempt result files of each case into a directory:
// c<id>.xml.<k> (structure "suites" for even ids, "flat" for odd), c<id>.go.<k> and c<id>.exit.<k> (exit status).
func init() { register("testresults-render", testResultsRender) }

func testResultsRender(args []string) error {
	defer flush()
	dir := args[1]
	return readCases(args[0], func(raw json.RawMessage) error {
		var c trCase
		if err := json.Unmarshal(raw, &c); err != nil {
			return err
		}
		layout := "flat"
		if c.ID%2 == 0 {
			layout = "suites"
		}
		for k, run := range c.Runs {
			exit := "0"
			for _, e := range run {
				if e.Out == "fail" || e.Out == "error" {
					exit = "1"
				}
			}
			files := map[string][]byte{
				fmt.Sprintf("c%d.xml.%d", c.ID, k+1):  trRenderXML(run, layout),
				fmt.Sprintf("c%d.go.%d", c.ID, k+1):   trRenderGo(run),
				fmt.Sprintf("c%d.exit.%d", c.ID, k+1): []byte(exit + "\n"),
			}
			for name, data := range files {
				if err := os.WriteFile(filepath.Join(dir, name), data, 0644); err != nil {
					return err
				}
			}
		}
		gonames := map[string]string{}
		for cl := range trClasses {
			for n := range trNames {
				gonames[cl+"/"+n] = trGoName(trEntry{Cls: cl, Name: n})
			}
		}
		emit(map[string]any{"id": c.ID, "attempts": len(c.Runs), "layout": layout,
			"names": map[string]string{"n1": trNames["n1"], "n2": trNames["n2"]},
			"classes": trClasses, "gonames": gonames})
		return nil
	})
}

func testResultsEngine(args []string) error {
	defer flush()
	cli.InitLogging(0)
	trInitRev()
	dur := 10 * time.Millisecond
	return readCases(args[0], guardCases(func(raw json.RawMessage) error {
		var c trCase
		if err := json.Unmarshal(raw, &c); err != nil {
			return err
		}
		runErr := func(i int) error {
			for _, e := range c.Runs[i] {
				if e.Out == "fail" || e.Out == "error" {
					return errors.New("exit status 1")
				}
			}
			return nil
		}
		obs := map[string]any{}
		render := func(key string, data func(i int) []byte) {
			// the parser alone
			obs["parse/"+key] = trLoop(c, func(i int) (core.TestSuite, error) {
				return test.VerifParseResults([][]byte{data(i)})
			})
			// the interpretation of a whole run: results file + exit status (0 iff nothing failed)
			obs["run/"+key] = trLoop(c, func(i int) (core.TestSuite, error) {
				return test.VerifParseTestOutput("", "", runErr(i), dur, trNewTarget(), [][]byte{data(i)}), nil
			})
		}
		for _, l := range c.Layouts {
			l := l
			render("xml:"+l, func(i int) []byte { return trRenderXML(c.Runs[i], l) })
		}
		render("go", func(i int) []byte { return trRenderGo(c.Runs[i]) })
		if c.InlineOK {
			for _, l := range c.Layouts {
				s, err := test.VerifParseResults([][]byte{trRenderInline(c, l)})
				if err != nil {
					obs["inline/xml:"+l] = map[string]any{"parse_error": err.Error()}
					continue
				}
				merged := core.TestSuite{}
				merged.Add(s.TestCases...)
				o := trObserve(&merged)
				o["attempts_used"] = len(c.Runs)
				obs["inline/xml:"+l] = o
			}
		}
		emit(map[string]any{"id": c.ID, "obs": obs})
		return nil
	}))
}
