package main

import (
	"crypto/sha256"
	"encoding/json"
	"fmt"
	"os"
	"path/filepath"
	"sort"
	"strings"

	"github.com/bazelbuild/remote-apis-sdks/go/pkg/digest"
	pb "github.com/bazelbuild/remote-apis/build/bazel/remote/execution/v2"

	"github.com/thought-machine/please/src/cli"
	"github.com/thought-machine/please/src/core"
	"github.com/thought-machine/please/src/fs"
	"github.com/thought-machine/please/src/remote"
)

// C28: every TLC-enumerated sequence of input declarations (RemoteTree.tla) is replayed
//  (level "builder") into the real remote.dirBuilder with the append pattern of action.go, and
//  (level "action") as a real build target whose sources / dependencies are declared in that order, through the
//  real Client.uploadInputDir + Build and Client.buildAction of an offline client (no server, nothing dialled).
// Observations are the produced Directory messages, their digests and the action digest; the verdict is Python's.
func init() { register("remotetree", remoteTreeEngine) }

type rtInput struct {
	K string `json:"k"`
	P []int  `json:"p"`
}

type rtCase struct {
	ID     int       `json:"id"`
	Ins    []rtInput `json:"ins"`
	Action bool      `json:"action"` // also replay at the action level
}

// rendering of the spec's small integers into names, contents, targets and opaque digests
// names whose byte order is the numeric order of the spec's names; `ab` and `a/b` differ only in the separator
var rtNames = []string{"a", "ab", "b", "bc", "c", "d", "e", "f"}

func rtName(n int) string { return rtNames[n-1] }
func rtPath(p []int) string {
	s := make([]string, len(p))
	for i, n := range p {
		s[i] = rtName(n)
	}
	return strings.Join(s, "/")
}
func rtContent(k string) []byte {
	if k == "f1" {
		return []byte("content one\n")
	}
	return []byte("content zero\n")
}
func rtTarget(k string) string {
	if k == "l1" {
		return "t1/x"
	}
	return "../t0"
}
func rtOpaque(k string) *pb.Digest {
	d := &pb.Directory{Files: []*pb.FileNode{{Name: "inner-" + k, Digest: digest.NewFromBlob([]byte(k)).ToProto()}}}
	return digest.TestNewFromMessage(d).ToProto()
}

type rtDirObs struct {
	Files  [][]any `json:"files"` // [name, hash, executable]
	Dirs   [][]any `json:"dirs"`  // [name, hash]
	Syms   [][]any `json:"syms"`  // [name, target]
	Digest string  `json:"digest"`
}

func rtObserve(dirs map[string]*pb.Directory) map[string]rtDirObs {
	out := map[string]rtDirObs{}
	for name, d := range dirs {
		if name == "" {
			continue // alias of "."
		}
		o := rtDirObs{Files: [][]any{}, Dirs: [][]any{}, Syms: [][]any{}}
		for _, f := range d.Files {
			o.Files = append(o.Files, []any{f.Name, f.Digest.GetHash(), f.IsExecutable})
		}
		for _, c := range d.Directories {
			o.Dirs = append(o.Dirs, []any{c.Name, c.Digest.GetHash()})
		}
		for _, s := range d.Symlinks {
			o.Syms = append(o.Syms, []any{s.Name, s.Target})
		}
		o.Digest = digest.TestNewFromMessage(d).Hash
		out[name] = o
	}
	return out
}

func rtBuilderLevel(c *rtCase) map[string]any {
	b := remote.NewVerifDirBuilder()
	for _, in := range c.Ins {
		p := rtPath(in.P)
		d := b.Dir(filepath.Dir(p)) // exactly how action.go adds nodes
		switch in.K[0] {
		case 'f', 'x':
			d.Files = append(d.Files, &pb.FileNode{Name: filepath.Base(p), Digest: digest.NewFromBlob(rtContent(in.K)).ToProto(), IsExecutable: in.K[0] == 'x'})
		case 'd':
			d.Directories = append(d.Directories, &pb.DirectoryNode{Name: filepath.Base(p), Digest: rtOpaque(in.K)})
		case 'l':
			d.Symlinks = append(d.Symlinks, &pb.SymlinkNode{Name: filepath.Base(p), Target: rtTarget(in.K)})
		}
	}
	root := b.Build()
	return map[string]any{"root": digest.TestNewFromMessage(root).Hash, "dirs": rtObserve(b.Dirs())}
}

var rtSeq int
var rtState *core.BuildState

// rtSharedState: one BuildState per process (NewBuildState starts goroutines and allocates large queues).
func rtSharedState() *core.BuildState {
	if rtState == nil {
		config := core.DefaultConfiguration()
		config.Build.Path = []string{"/usr/local/bin", "/usr/bin", "/bin"}
		config.Build.HashFunction = "sha256"
		config.Remote.Platform = []string{"OSFamily=linux"}
		rtState = core.NewBuildState(config)
	}
	return rtState
}

// rtActionLevel materialises the file / symlink inputs in a scratch repository, declares them as sources of a
// real target in the case's order, declares the opaque directories as outputs of dependencies (in the case's
// order) and runs the real input-root and action construction.
func rtActionLevel(c *rtCase, scratch string) (res map[string]any) {
	defer func() {
		if r := recover(); r != nil {
			res = map[string]any{"error": fmt.Sprintf("PANIC: %v", r)}
		}
	}()
	rtSeq++
	dir := filepath.Join(scratch, fmt.Sprintf("rt%d", rtSeq))
	if err := os.MkdirAll(dir, 0o755); err != nil {
		return map[string]any{"infra": err.Error()}
	}
	defer os.RemoveAll(dir)
	if err := os.Chdir(dir); err != nil {
		return map[string]any{"infra": err.Error()}
	}
	core.RepoRoot = dir
	state := rtSharedState()
	state.Graph = core.NewGraph()                                         // nothing is shared between cases:
	state.PathHasher = fs.NewPathHasher(dir, false, sha256.New, "sha256") // fresh graph, fresh (memo-free) hasher
	client := remote.VerifOfflineClient(state, "/bin/bash", "/home/verif")

	target := core.NewBuildTarget(core.BuildLabel{PackageName: "", Name: "t"})
	target.Command = "cat $SRCS > $OUT"
	target.AddOutput("zz_out")
	target.AddOutput("aa_out")
	target.Env = map[string]string{"ZVAR": "z", "AVAR": "a", "MVAR": "m"}
	target.BuildTimeout = 600e9
	srcOrder := []string{}
	deps := []*core.BuildTarget{}
	for i, in := range c.Ins {
		p := rtPath(in.P)
		full := filepath.Join(dir, p)
		switch in.K[0] {
		case 'f', 'x':
			os.MkdirAll(filepath.Dir(full), 0o755)
			mode := os.FileMode(0o644)
			if in.K[0] == 'x' {
				mode = 0o755
			}
			os.Remove(full)
			if err := os.WriteFile(full, rtContent(in.K), mode); err != nil {
				return map[string]any{"conflict": err.Error()} // the declared layout cannot exist on disk
			}
			target.AddSource(core.FileLabel{File: p, Package: ""})
			srcOrder = append(srcOrder, p)
		case 'l':
			os.MkdirAll(filepath.Dir(full), 0o755)
			os.Remove(full)
			if err := os.Symlink(rtTarget(in.K), full); err != nil {
				return map[string]any{"conflict": err.Error()}
			}
			target.AddSource(core.FileLabel{File: p, Package: ""})
			srcOrder = append(srcOrder, p)
		case 'd':
			label := core.BuildLabel{PackageName: filepath.Dir(p), Name: fmt.Sprintf("dep_%s_%s", filepath.Base(p), in.K)}
			if label.PackageName == "." {
				label.PackageName = ""
			}
			if state.Graph.Target(label) == nil {
				dep := core.NewBuildTarget(label)
				dep.AddOutput(filepath.Base(p))
				state.Graph.AddTarget(dep)
				deps = append(deps, dep)
				client.VerifSetTargetOutputs(label, &pb.Directory{Directories: []*pb.DirectoryNode{{Name: filepath.Base(p), Digest: rtOpaque(in.K)}}})
			}
			target.AddDependency(label)
			_ = i
		}
	}
	state.Graph.AddTarget(target)
	for _, d := range deps {
		if err := d.ResolveDependencies(state.Graph); err != nil {
			return map[string]any{"infra": err.Error()}
		}
	}
	if err := target.ResolveDependencies(state.Graph); err != nil {
		return map[string]any{"infra": err.Error()}
	}
	root, dirs, err := client.VerifInputDirs(target, false)
	if err != nil {
		return map[string]any{"error": err.Error()}
	}
	res = map[string]any{"root": digest.TestNewFromMessage(root).Hash, "dirs": rtObserve(dirs), "srcs": srcOrder}
	cmd, actionDigest, err := client.VerifBuildAction(target, false, false)
	if err != nil {
		res["action_error"] = err.Error()
		return res
	}
	res["action"] = actionDigest.GetHash()
	envNames := []string{}
	envNoSrcs := []string{}
	for _, e := range cmd.EnvironmentVariables {
		envNames = append(envNames, e.Name)
		if !strings.HasPrefix(e.Name, "SRCS") {
			envNoSrcs = append(envNoSrcs, e.Name+"="+e.Value)
		}
	}
	res["env_names"] = envNames
	res["env_sorted"] = sort.StringsAreSorted(envNames)
	res["outputs"] = cmd.OutputPaths
	res["args"] = cmd.Arguments
	res["env_nosrcs"] = digest.NewFromBlob([]byte(strings.Join(envNoSrcs, "\x00"))).Hash
	return res
}

func remoteTreeEngine(args []string) error {
	defer flush()
	cli.InitLogging(cli.MinVerbosity)
	scratch := os.Getenv("VERIF_SCRATCH")
	if scratch == "" {
		scratch = os.TempDir()
	}
	legend := map[string]any{"id": "legend"}
	for _, k := range []string{"f0", "f1", "x0"} {
		legend[k] = digest.NewFromBlob(rtContent(k)).Hash
	}
	for _, k := range []string{"d1", "d2"} {
		legend[k] = rtOpaque(k).Hash
	}
	for _, k := range []string{"l0", "l1"} {
		legend[k] = rtTarget(k)
	}
	emit(legend)
	return readCases(args[0], func(raw json.RawMessage) error {
		var c rtCase
		if err := json.Unmarshal(raw, &c); err != nil {
			return err
		}
		o := map[string]any{"id": c.ID, "builder": rtBuilderLevel(&c)}
		if c.Action {
			o["action"] = rtActionLevel(&c, scratch)
		}
		emit(o)
		return nil
	})
}
