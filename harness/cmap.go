package main

import (
	"errors"
	"fmt"
	"math/rand"
	"os"
	"runtime"
	"strconv"
	"sync"
	"sync/atomic"
	"time"

	"github.com/thought-machine/please/src/cmap"
)

// C15: records black-box concurrent histories of the real cmap.Map and cmap.ErrMap.
// Call is logged before and Ret after each operation; the logger's mutex only orders log lines, it never
// brackets an operation. Woken is logged after a wait channel closes; NotWoken only after every operation
// has returned and a grace period (then nothing can close the channel any more).
func init() { register("cmap", cmapEngine) }

type rec map[string]any

var (
	cmapMu  sync.Mutex
	cmapSeq int
)

func cmapEmit(r rec) {
	cmapMu.Lock()
	cmapSeq++
	r["seq"] = cmapSeq
	emit(r)
	cmapMu.Unlock()
}

func cmapEngine(args []string) error {
	defer flush()
	seed, _ := strconv.ParseInt(args[0], 10, 64)
	nh, _ := strconv.Atoi(args[1])
	for h := 0; h < nh; h++ {
		rng := rand.New(rand.NewSource(seed*100003 + int64(h)))
		switch {
		case h%4 == 3:
			errMapHistory(rng, h)
		case h%4 == 1:
			stormHistory(rng, h)
		default:
			mapHistory(rng, h)
		}
	}
	return nil
}

func yield(rng *rand.Rand) {
	switch rng.Intn(4) {
	case 0:
		runtime.Gosched()
	case 1:
		time.Sleep(time.Duration(rng.Intn(50)) * time.Microsecond)
	}
}

func mapHistory(rng *rand.Rand, h int) {
	shards := uint64(1)
	if rng.Intn(3) == 0 {
		shards = 4
	}
	nthreads := 2 + rng.Intn(2)
	nops := 2 + rng.Intn(2)
	cmapEmit(rec{"ev": "Reset", "h": h, "shards": shards, "kind": "Map"})
	m := cmap.New[int, int](shards, func(k int) uint64 { return uint64(k) })
	var wg, waiters sync.WaitGroup
	done := make(chan struct{})
	type plan struct{ op, k int }
	plans := make([][]plan, nthreads)
	seeds := make([]int64, nthreads)
	for t := range plans {
		seeds[t] = rng.Int63()
		for i := 0; i < nops; i++ {
			plans[t] = append(plans[t], plan{rng.Intn(8), 1 + rng.Intn(2)})
		}
	}
	for t := 0; t < nthreads; t++ {
		wg.Add(1)
		go func(t int) {
			defer wg.Done()
			r := rand.New(rand.NewSource(seeds[t]))
			for i, p := range plans[t] {
				k, v := p.k, 100*(t+1)+i+1 // values are unique per operation
				yield(r)
				call := func(op string, val int) {
					cmapEmit(rec{"ev": "Call", "th": t, "op": op, "k": k, "v": val})
				}
				ret := func(ok bool, got int, w, first bool) {
					cmapEmit(rec{"ev": "Ret", "th": t, "ok": ok, "v": got, "w": w, "f": first, "vals": []int{}})
				}
				switch p.op {
				case 0, 1:
					call("Add", v)
					ok := m.Add(k, v)
					ret(ok, 0, false, false)
				case 2:
					call("Set", v)
					m.Set(k, v)
					ret(true, 0, false, false)
				case 3:
					call("AddOrGet", v)
					got, ins := m.AddOrGet(k, func() int { return v })
					ret(ins, got, false, false)
				case 4:
					call("Get", 0)
					got := m.Get(k)
					ret(true, got, false, false)
				case 5:
					call("Contains", 0)
					ok := m.Contains(k)
					ret(ok, 0, false, false)
				case 6:
					call("Values", 0)
					vals := m.Values()
					cmapEmit(rec{"ev": "Ret", "th": t, "ok": false, "v": 0, "w": false, "f": false, "vals": vals})
				default:
					call("GetOrWait", 0)
					got, ch, first := m.GetOrWait(k)
					ret(true, got, ch != nil, first)
					if ch != nil {
						waiters.Add(1)
						go func() {
							defer waiters.Done()
							select {
							case <-ch:
								cmapEmit(rec{"ev": "Woken", "k": k})
							case <-done:
								select {
								case <-ch:
									cmapEmit(rec{"ev": "Woken", "k": k})
								default:
									cmapEmit(rec{"ev": "NotWoken", "k": k})
								}
							}
						}()
					}
				}
			}
		}(t)
	}
	wg.Wait()
	cmapEmit(rec{"ev": "AllReturned"})
	time.Sleep(2 * time.Millisecond)
	close(done)
	waiters.Wait()
}

// stormHistory releases several goroutines from a spin barrier so that they run the SAME kind of operation on the
// SAME absent key at the same instant: the narrow check-then-act windows of the map are hit far more often than by
// random plans.
func stormHistory(rng *rand.Rand, h int) {
	shards := uint64(1)
	nthreads := 3 + rng.Intn(2)
	op := rng.Intn(4)
	cmapEmit(rec{"ev": "Reset", "h": h, "shards": shards, "kind": "Storm"})
	m := cmap.New[int, int](shards, func(k int) uint64 { return uint64(k) })
	var wg, waiters sync.WaitGroup
	done := make(chan struct{})
	var ready, goFlag int32
	for t := 0; t < nthreads; t++ {
		wg.Add(1)
		go func(t int) {
			defer wg.Done()
			k, v := 1, 100*(t+1)+1
			call := func(name string, val int) { cmapEmit(rec{"ev": "Call", "th": t, "op": name, "k": k, "v": val}) }
			ret := func(ok bool, got int, w, first bool) {
				cmapEmit(rec{"ev": "Ret", "th": t, "ok": ok, "v": got, "w": w, "f": first, "vals": []int{}})
			}
			// the Call is logged before the barrier, the operation runs right after it
			switch op {
			case 0:
				call("AddOrGet", v)
			case 1:
				call("Add", v)
			case 2:
				call("GetOrWait", 0)
			default:
				if t == 0 {
					call("Add", v)
				} else {
					call("GetOrWait", 0)
				}
			}
			atomic.AddInt32(&ready, 1)
			for atomic.LoadInt32(&goFlag) == 0 {
			}
			switch {
			case op == 0:
				got, ins := m.AddOrGet(k, func() int { return v })
				ret(ins, got, false, false)
			case op == 1 || (op == 3 && t == 0):
				ok := m.Add(k, v)
				ret(ok, 0, false, false)
			default:
				got, ch, first := m.GetOrWait(k)
				ret(true, got, ch != nil, first)
				if ch != nil {
					waiters.Add(1)
					go func() {
						defer waiters.Done()
						select {
						case <-ch:
							cmapEmit(rec{"ev": "Woken", "k": k})
						case <-done:
							select {
							case <-ch:
								cmapEmit(rec{"ev": "Woken", "k": k})
							default:
								cmapEmit(rec{"ev": "NotWoken", "k": k})
							}
						}
					}()
				}
			}
		}(t)
	}
	for atomic.LoadInt32(&ready) < int32(nthreads) {
		runtime.Gosched()
	}
	atomic.StoreInt32(&goFlag, 1)
	wg.Wait()
	cmapEmit(rec{"ev": "AllReturned"})
	if op >= 2 {
		// someone adds the key afterwards so that every waiter must be released
		cmapEmit(rec{"ev": "Call", "th": 0, "op": "Set", "k": 1, "v": 999})
		m.Set(1, 999)
		cmapEmit(rec{"ev": "Ret", "th": 0, "ok": true, "v": 0, "w": false, "f": false, "vals": []int{}})
		cmapEmit(rec{"ev": "AllReturned"})
	}
	time.Sleep(2 * time.Millisecond)
	close(done)
	waiters.Wait()
}

func errMapHistory(rng *rand.Rand, h int) {
	nthreads := 3 + rng.Intn(2)
	cmapEmit(rec{"ev": "Reset", "h": h, "shards": 1, "kind": "ErrMap"})
	m := cmap.NewErrMap[int, int](1, func(k int) uint64 { return uint64(k) }, nil)
	var wg sync.WaitGroup
	seeds := make([]int64, nthreads)
	for t := range seeds {
		seeds[t] = rng.Int63()
	}
	hung := make(chan struct{})
	for t := 0; t < nthreads; t++ {
		wg.Add(1)
		go func(t int) {
			defer wg.Done()
			r := rand.New(rand.NewSource(seeds[t]))
			for i := 0; i < 2; i++ {
				k, v := 1+r.Intn(2), 100*(t+1)+i+1
				fail := r.Intn(3) == 0
				yield(r)
				enc := v
				if fail {
					enc = 1000 + v // an error cell, encoded as 1000+code
				}
				cmapEmit(rec{"ev": "Call", "th": t, "op": "GetOrSet", "k": k, "v": enc})
				got, err := m.GetOrSet(k, func() (int, error) {
					yield(r)
					if fail {
						return 0, fmt.Errorf("%d", v)
					}
					return v, nil
				})
				if err != nil {
					code, _ := strconv.Atoi(err.Error())
					got = 1000 + code
				}
				cmapEmit(rec{"ev": "Ret", "th": t, "ok": true, "v": got, "w": false, "f": false, "vals": []int{}})
			}
		}(t)
	}
	go func() { wg.Wait(); close(hung) }()
	select {
	case <-hung:
		cmapEmit(rec{"ev": "AllReturned"})
	case <-time.After(20 * time.Second):
		// a GetOrSet caller never returned: a lost wake-up. The trace ends without AllReturned and with
		// pending calls, which the driver reports.
		cmapEmit(rec{"ev": "Hung"})
		flush()
		os.Exit(3)
	}
}

var _ = errors.New
