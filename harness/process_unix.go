package main

import "syscall"

func syscallKillGroup(pg int) { syscall.Kill(-pg, syscall.SIGKILL) }
