package main

import (
	"encoding/json"
	"fmt"
	"os"
	"path/filepath"
	"strings"
	"sync"
	"sync/atomic"

	"github.com/thought-machine/please/src/cli"
	"github.com/thought-machine/please/src/core"
	"github.com/thought-machine/please/src/parse"
)

// Shared helper of the asp families (C16 C17 C18 C38): interprets a BUILD-language source string
// in-process with the REAL interpreter of /repo (core.NewDefaultBuildState + parse.InitParser + the
// exported Parser.ParseReader into a fresh core.Package) and reads values back hook-free from
// `text_file(name="probe_<v>", content=json(<v>))` targets appended to the program.
//
// One interpreter is created lazily per process (as plz itself does) and reused; every call gets its
// own package `verif/p<N>`, so package scopes are independent, and an erroring program cannot affect a
// later one other than through the interpreter's own shared state (which is what C17 is about).

var (
	aspOnce  sync.Once
	aspState *core.BuildState
	aspSeq   atomic.Int64
)

func aspInit() *core.BuildState {
	aspOnce.Do(func() {
		cli.InitLogging(cli.MinVerbosity) // errors only: the interpreter logs every rejected program at debug level
		aspState = core.NewDefaultBuildState()
		parse.InitParser(aspState)
	})
	return aspState
}

// aspProbeSuffix renders the probe targets appended to a program.
func aspProbeSuffix(probes []string) string {
	var b strings.Builder
	b.WriteString("\n")
	for _, v := range probes {
		fmt.Fprintf(&b, "text_file(name = \"probe_%s\", content = json(%s))\n", v, v)
	}
	return b.String()
}

// aspEval interprets src (plus one probe target per name in probes) as the BUILD file of a fresh package
// and returns the JSON of each probe variable as the interpreter serialised it.
// err != nil means the real interpreter rejected the program (parse or evaluation error); the text is
// the interpreter's message. An escaped Go panic is returned as an error starting with "ESCAPED PANIC:".
func aspEval(src string, probes []string) (values map[string]json.RawMessage, err error) {
	pkg, err := aspEvalPackage(src+aspProbeSuffix(probes), "")
	if err != nil {
		return nil, err
	}
	values = map[string]json.RawMessage{}
	for _, v := range probes {
		t := pkg.Target("probe_" + v)
		if t == nil {
			return nil, fmt.Errorf("probe target for %s was not created", v)
		}
		values[v] = json.RawMessage(t.FileContent)
	}
	return values, nil
}

// aspEvalPackage interprets src as the BUILD file of a fresh package (named pkgName, or verif/p<N> when
// empty) and returns the package with whatever targets the program created.
func aspEvalPackage(src, pkgName string) (pkg *core.Package, err error) {
	state := aspInit()
	if pkgName == "" {
		pkgName = fmt.Sprintf("verif/p%d", aspSeq.Add(1))
	}
	pkg = core.NewPackage(pkgName)
	pkg.Filename = pkgName + "/BUILD"
	defer func() {
		if r := recover(); r != nil {
			err = fmt.Errorf("ESCAPED PANIC: %v", r)
		}
	}()
	label := core.BuildLabel{PackageName: pkgName, Name: "all"}
	dep := core.OriginalTarget
	if err := state.Parser.ParseReader(pkg, strings.NewReader(src), &label, &dep, core.ParseModeNormal); err != nil {
		return nil, err
	}
	return pkg, nil
}

// aspDefineSubinclude makes `subinclude("//<returned label>")` work in-process with the REAL subinclude
// builtin and the real interpreter.Subinclude (parse + optimise + constant folding + Freeze of the
// file's globals): it writes defs to plz-out/gen/verifdefs/d<N>.build_defs under the current directory
// (run vh with cwd = a scratch dir) and registers a target //verifdefs:d<N> that is already Built with
// that single output and PUBLIC visibility, so the builtin finds it built and never queues anything.
func aspDefineSubinclude(defs string) (string, error) {
	state := aspInit()
	n := aspSeq.Add(1)
	label := core.BuildLabel{PackageName: "verifdefs", Name: fmt.Sprintf("d%d", n)}
	t := core.NewBuildTarget(label)
	out := fmt.Sprintf("d%d.build_defs", n)
	t.AddOutput(out)
	t.Visibility = []core.BuildLabel{core.WholeGraph[0]}
	t.SetState(core.Built)
	if err := os.MkdirAll(t.OutDir(), 0o755); err != nil {
		return "", err
	}
	if err := os.WriteFile(filepath.Join(t.OutDir(), out), []byte(defs), 0o644); err != nil {
		return "", err
	}
	state.Graph.AddTarget(t)
	return label.String(), nil
}

// aspEvalWithDefs is aspEval for a program that imports defs through subinclude(): defs is interpreted
// as a build_defs file (its globals arrive frozen), src as the BUILD file of a fresh package that starts
// with `subinclude("<label>")`.
func aspEvalWithDefs(defs, src string, probes []string) (map[string]json.RawMessage, error) {
	label, err := aspDefineSubinclude(defs)
	if err != nil {
		return nil, fmt.Errorf("HARNESS: %w", err)
	}
	return aspEval(fmt.Sprintf("subinclude(%q)\n", label)+src, probes)
}
