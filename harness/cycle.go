package main

import (
	"encoding/json"
	"fmt"

	"github.com/thought-machine/please/src/core"
)

// C06: builds each enumerated digraph as a real core.BuildGraph with resolved dependencies and runs
// the real cycle detector once over it.
func init() { register("cycle", cycleEngine) }

type cycleCase struct {
	ID    int     `json:"id"`
	N     int     `json:"n"`
	Edges [][]int `json:"edges"`
}

func cycleEngine(args []string) error {
	defer flush()
	return readCases(args[0], func(raw json.RawMessage) error {
		var c cycleCase
		if err := json.Unmarshal(raw, &c); err != nil {
			return err
		}
		graph := core.NewGraph()
		label := func(i int) core.BuildLabel {
			return core.BuildLabel{PackageName: "p", Name: fmt.Sprintf("t%02d", i)}
		}
		targets := make([]*core.BuildTarget, c.N+1)
		for i := 1; i <= c.N; i++ {
			targets[i] = core.NewBuildTarget(label(i))
		}
		for _, e := range c.Edges {
			targets[e[0]].AddDependency(label(e[1]))
		}
		for i := 1; i <= c.N; i++ {
			graph.AddTarget(targets[i])
		}
		for i := 1; i <= c.N; i++ {
			if err := targets[i].ResolveDependencies(graph); err != nil {
				return err
			}
		}
		cyc := core.VerifCycleCheck(graph)
		res := []int{}
		for _, l := range cyc {
			var k int
			fmt.Sscanf(l.Name, "t%d", &k)
			res = append(res, k)
		}
		emit(map[string]any{"id": c.ID, "found": cyc != nil, "cycle": res})
		return nil
	})
}
