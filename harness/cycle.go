package main

import (
	"encoding/json"
	"fmt"

	"github.com/thought-machine/please/src/core"
)

// C06: builds each enumerated digraph as a real core.BuildGraph with resolved dependencies and runs
// the real cycle detector once over it.
func init() { register("cycle", cycleEngine) }

type cycleCase struct {
	ID    int     `json:"id"`
	N     int     `json:"n"`
	Edges [][]int `json:"edges"`
	Kinds int     `json:"kinds"` // offset into the menu of dependency kinds
}

func cycleEngine(args []string) error {
	defer flush()
	return readCases(args[0], func(raw json.RawMessage) error {
		var c cycleCase
		if err := json.Unmarshal(raw, &c); err != nil {
			return err
		}
		graph := core.NewGraph()
		label := func(i int) core.BuildLabel {
			return core.BuildLabel{PackageName: "p", Name: fmt.Sprintf("t%02d", i)}
		}
		targets := make([]*core.BuildTarget, c.N+1)
		for i := 1; i <= c.N; i++ {
			targets[i] = core.NewBuildTarget(label(i))
		}
		for _, e := range c.Edges {
			// every kind of dependency edge is a dependency as far as cycles go: plain deps, labels listed in srcs,
			// internal ones and run-time ones (which need a binary target), chosen by a fixed function of the edge
			switch (e[0]*7 + e[1]*3 + c.Kinds) % 4 {
			case 0:
				targets[e[0]].AddDependency(label(e[1]))
			case 1:
				targets[e[0]].AddMaybeExportedDependency(label(e[1]), false, true, false, false)
			case 2:
				targets[e[0]].AddMaybeExportedDependency(label(e[1]), false, false, true, false)
			default:
				targets[e[0]].IsBinary = true
				targets[e[0]].AddMaybeExportedDependency(label(e[1]), false, false, false, true)
			}
		}
		for i := 1; i <= c.N; i++ {
			graph.AddTarget(targets[i])
		}
		// a detector kept across passes, as in a build: the first pass sees the targets before any dependency is
		// resolved (no edges: it must report nothing), the second the fully resolved graph
		det := core.NewVerifCycleDetector(graph)
		early := det.Check()
		for i := 1; i <= c.N; i++ {
			if err := targets[i].ResolveDependencies(graph); err != nil {
				return err
			}
		}
		cyc := core.VerifCycleCheck(graph)
		again := det.Check()
		res := []int{}
		for _, l := range cyc {
			var k int
			fmt.Sscanf(l.Name, "t%d", &k)
			res = append(res, k)
		}
		emit(map[string]any{"id": c.ID, "found": cyc != nil, "cycle": res, "early": early != nil, "again": again != nil})
		return nil
	})
}
