package main

import (
	"encoding/json"
	"fmt"
	"os"
	"path/filepath"
	"sort"
	"strings"

	"github.com/thought-machine/please/src/cli"
	"github.com/thought-machine/please/src/core"
	"github.com/thought-machine/please/src/parse/asp"
	"github.com/thought-machine/please/src/plz"
)

// C20 / C33 / C36: label parsing and printing, pattern use sites, visibility, include/exclude filters.
// Every observation is what the real code returned; verdicts are taken in lib/engines/labels.py.
func init() {
	register("labels-str", labelsStrEngine)
	register("labels-pat", labelsPatEngine)
	register("labels-vis", labelsVisEngine)
	register("labels-filter", labelsFilterEngine)
}

func lblJSON(l core.BuildLabel) map[string]any {
	return map[string]any{"sub": l.Subrepo, "pkg": l.PackageName, "name": l.Name}
}

// tryParse calls the real parser; a panic is an observation, not a harness crash.
func tryParse(s string) (l core.BuildLabel, ok bool, pan string) {
	defer func() {
		if r := recover(); r != nil {
			ok, pan = false, fmt.Sprint(r)
		}
	}()
	l, err := core.TryParseBuildLabel(s, "", "")
	return l, err == nil, ""
}

func tryPrint(l core.BuildLabel) (s string, pan string) {
	defer func() {
		if r := recover(); r != nil {
			pan = fmt.Sprint(r)
		}
	}()
	return l.String(), ""
}

// observeString: parse s, print the label, parse the printed form again.
func observeString(s string) map[string]any {
	o := map[string]any{"s": s}
	l, ok, pan := tryParse(s)
	o["acc"] = ok
	if pan != "" {
		o["panic"] = pan
	}
	if !ok {
		return o
	}
	o["label"] = lblJSON(l)
	p, pan := tryPrint(l)
	if pan != "" {
		o["panic"] = pan
		return o
	}
	o["printed"] = p
	l2, ok2, pan := tryParse(p)
	if pan != "" {
		o["panic"] = pan
	}
	o["acc2"] = ok2
	if ok2 {
		o["label2"] = lblJSON(l2)
	}
	// the config-file entry point (gcfg) must agree with the parser proper
	var l3 core.BuildLabel
	err := l3.UnmarshalText([]byte(s))
	o["text_agrees"] = err == nil && l3 == l
	return o
}

type strSpace struct {
	Alphabet []string `json:"alphabet"`
	MaxColon int      `json:"max_colon"`
	MaxAt    int      `json:"max_at"`
	MaxSlash int      `json:"max_slash"`
}

func (sp *strSpace) viable(t string) bool {
	if t == "" {
		return true
	}
	switch t[0] {
	case ':':
		return len(t) <= sp.MaxColon
	case '@':
		return len(t) <= sp.MaxAt
	case '/':
		return len(t) < 2 || (t[1] == '/' && len(t) <= sp.MaxSlash)
	}
	return false
}

func labelsStrEngine(args []string) error {
	defer flush()
	cli.InitLogging(0)
	seen := map[string]bool{}
	if err := readCases(args[0], func(raw json.RawMessage) error {
		var c struct {
			ID int    `json:"id"`
			S  string `json:"str"`
		}
		if err := json.Unmarshal(raw, &c); err != nil {
			return err
		}
		seen[c.S] = true
		o := observeString(c.S)
		o["id"] = c.ID
		emit(o)
		return nil
	}); err != nil {
		return err
	}
	if len(args) < 2 {
		return nil
	}
	// The same bounded space the specification enumerated: report every string outside the case list
	// (i.e. one the specification says is neither valid nor accepted) that the real parser accepts.
	var sp strSpace
	if err := json.Unmarshal([]byte(args[1]), &sp); err != nil {
		return err
	}
	count := 0
	var rec func(t string)
	rec = func(t string) {
		count++
		if !seen[t] {
			if o := observeString(t); o["acc"] == true || o["panic"] != nil {
				o["id"] = "x:" + t
				o["extra"] = true
				emit(o)
			}
		}
		for _, ch := range sp.Alphabet {
			if n := t + ch; sp.viable(n) {
				rec(n)
			}
		}
	}
	rec("")
	emit(map[string]any{"id": "space", "count": count})
	return nil
}

// ------------------------------------------------------------------------------------------ patterns

func joinSegs(p [][]string) string {
	segs := make([]string, len(p))
	for i, s := range p {
		segs[i] = strings.Join(s, "")
	}
	return strings.Join(segs, "/")
}

func patString(pkg, kind, name string) string {
	switch kind {
	case "sub":
		if pkg == "" {
			return "//..."
		}
		return "//" + pkg + "/..."
	case "all":
		return "//" + pkg + ":all"
	}
	return "//" + pkg + ":" + name
}

type statePool struct{ m map[string]*core.BuildState }

// get returns a BuildState whose experimental directories are exactly dirs (NewBuildState derives the
// unexported experimentalLabels from the configuration, as a real run does).
func (sp *statePool) get(dirs []string) *core.BuildState {
	key := strings.Join(dirs, ",")
	if s, ok := sp.m[key]; ok {
		return s
	}
	config := core.DefaultConfiguration()
	config.Parse.ExperimentalDir = append([]string{}, dirs...)
	config.Parse.BuildFileName = []string{"BUILD", "BUILD.plz"} // the default ReadConfigFiles applies
	s := core.NewBuildState(config)
	sp.m[key] = s
	return s
}

func mustLabel(s string) core.BuildLabel {
	var l core.BuildLabel
	if err := l.UnmarshalText([]byte(s)); err != nil {
		panic(fmt.Sprintf("harness: cannot parse %q: %v", s, err))
	}
	return l
}

type patCase struct {
	ID   int        `json:"id"`
	P    [][]string `json:"p"`
	Kind string     `json:"kind"`
	Q    [][]string `json:"q"`
}

func labelsPatEngine(args []string) error {
	defer flush()
	cli.InitLogging(0)
	var cases []patCase
	if err := readCases(args[0], func(raw json.RawMessage) error {
		var c patCase
		if err := json.Unmarshal(raw, &c); err != nil {
			return err
		}
		cases = append(cases, c)
		return nil
	}); err != nil {
		return err
	}
	pkgs := map[string]bool{}
	for _, c := range cases {
		pkgs[joinSegs(c.P)] = true
		pkgs[joinSegs(c.Q)] = true
	}
	// a graph holding target x in every package (for :all / ... expansion of command-line patterns)
	full := core.NewGraph()
	for name := range pkgs {
		pkg := core.NewPackage(name)
		t := core.NewBuildTarget(core.BuildLabel{PackageName: name, Name: "x"})
		pkg.AddTarget(t)
		full.AddTarget(t)
		full.AddPackage(pkg)
	}
	// and a directory tree with a BUILD file in every package (for the /... walk of the command line)
	root, err := os.MkdirTemp(os.Getenv("VERIF_SCRATCH"), "labels-walk-")
	if err != nil {
		return err
	}
	defer os.RemoveAll(root)
	for name := range pkgs {
		if err := os.MkdirAll(filepath.Join(root, name), 0o755); err != nil {
			return err
		}
		if err := os.WriteFile(filepath.Join(root, name, "BUILD"), []byte("# "+name+"\n"), 0o644); err != nil {
			return err
		}
	}
	if err := os.Chdir(root); err != nil {
		return err
	}
	pool := &statePool{m: map[string]*core.BuildState{}}
	plain := pool.get(nil)
	expandCache := map[string]map[string]bool{}
	walkCache := map[string]map[string]bool{}

	for _, c := range cases {
		p, q := joinSegs(c.P), joinSegs(c.Q)
		ps := patString(p, c.Kind, "")
		o := map[string]any{"id": c.ID, "pattern": ps, "target": "//" + q + ":x"}
		sites := map[string]any{}
		site := func(name string, f func() bool) {
			defer func() {
				if r := recover(); r != nil {
					sites[name] = "panic: " + fmt.Sprint(r)
				}
			}()
			sites[name] = f()
		}
		pl := mustLabel(ps) // the pattern, parsed by the real parser as a config file / BUILD file would
		tl := core.BuildLabel{PackageName: q, Name: "x"}
		site("Includes", func() bool { return pl.Includes(tl) })
		site("Matches", func() bool { return pl.Matches(tl) })
		site("visibility", func() bool {
			dep := core.NewBuildTarget(core.BuildLabel{PackageName: "zdep", Name: "d"})
			dep.Visibility = []core.BuildLabel{pl}
			t := core.NewBuildTarget(tl)
			t.AddDependency(dep.Label)
			g := core.NewGraph()
			g.AddTarget(dep)
			g.AddTarget(t)
			plain.Graph = g
			return t.CheckDependencyVisibility(plain) == nil
		})
		site("exclude", func() bool {
			plain.ExcludeTargets = nil
			plain.SetIncludeAndExclude(nil, []string{ps})
			defer func() { plain.ExcludeTargets = nil }()
			return !plain.ShouldInclude(core.NewBuildTarget(tl))
		})
		site("expand", func() bool {
			sel, ok := expandCache[ps]
			if !ok {
				plain.Graph = full
				plain.ExcludeTargets = nil
				sel = map[string]bool{}
				for _, l := range plain.ExpandLabels([]core.BuildLabel{pl}) {
					sel[l.PackageName] = true
				}
				expandCache[ps] = sel
			}
			return sel[q]
		})
		if c.Kind == "all" {
			site("targetset", func() bool {
				ts := core.NewTargetSet()
				ts.Add(pl)
				m, _ := ts.Match(tl)
				return m
			})
		}
		site("sandbox-whitelist", func() bool {
			plain.Config.Sandbox.ExcludeableTargets = []core.BuildLabel{pl}
			plain.Config.Parse.ExperimentalDir = nil
			defer func() { plain.Config.Sandbox.ExcludeableTargets = nil }()
			t := core.NewBuildTarget(tl) // Sandbox is false: the target opts out
			return asp.VerifValidateSandbox(plain, t) == nil
		})
		if c.Kind == "sub" {
			site("walk", func() bool {
				sel, ok := walkCache[p]
				if !ok {
					sel = map[string]bool{}
					for f := range plz.FindAllBuildFiles(plain.Config, p, "") {
						d := filepath.Dir(f)
						if d == "." {
							d = ""
						}
						sel[d] = true
					}
					walkCache[p] = sel
				}
				return sel[q]
			})
		}
		if c.Kind == "sub" && p != "" {
			site("sandbox-expdir", func() bool {
				plain.Config.Sandbox.ExcludeableTargets = []core.BuildLabel{mustLabel("//zz:all")}
				plain.Config.Parse.ExperimentalDir = []string{p}
				defer func() {
					plain.Config.Sandbox.ExcludeableTargets = nil
					plain.Config.Parse.ExperimentalDir = nil
				}()
				return asp.VerifValidateSandbox(plain, core.NewBuildTarget(tl)) == nil
			})
			site("experimental", func() bool {
				st := pool.get([]string{p})
				dep := core.NewBuildTarget(core.BuildLabel{PackageName: "zdep", Name: "d"}) // private
				t := core.NewBuildTarget(tl)
				t.AddDependency(dep.Label)
				g := core.NewGraph()
				g.AddTarget(dep)
				g.AddTarget(t)
				st.Graph = g
				return t.CheckDependencyVisibility(st) == nil
			})
		}
		o["sites"] = sites
		emit(o)
	}
	return nil
}

// ---------------------------------------------------------------------------------------- visibility

type visPat struct {
	Pkg  [][]string `json:"pkg"`
	Kind string     `json:"kind"`
	Name []string   `json:"name"`
}

type visCase struct {
	ID int `json:"id"`
	T  struct {
		Pkg      [][]string `json:"pkg"`
		Name     []string   `json:"name"`
		Test     bool       `json:"test"`
		TestOnly bool       `json:"testonly"`
	} `json:"t"`
	Deps []struct {
		Pkg      [][]string `json:"pkg"`
		Vis      []visPat   `json:"vis"`
		TestOnly bool       `json:"testonly"`
	} `json:"deps"`
	Exp [][][]string `json:"exp"`
}

func labelsVisEngine(args []string) error {
	defer flush()
	cli.InitLogging(0)
	pool := &statePool{m: map[string]*core.BuildState{}}
	return readCases(args[0], func(raw json.RawMessage) error {
		var c visCase
		if err := json.Unmarshal(raw, &c); err != nil {
			return err
		}
		o := map[string]any{"id": c.ID}
		func() {
			defer func() {
				if r := recover(); r != nil {
					o["panic"] = fmt.Sprint(r)
				}
			}()
			dirs := []string{}
			for _, e := range c.Exp {
				dirs = append(dirs, joinSegs(e))
			}
			state := pool.get(dirs)
			g := core.NewGraph()
			state.Graph = g
			t := core.NewBuildTarget(core.BuildLabel{PackageName: joinSegs(c.T.Pkg), Name: strings.Join(c.T.Name, "")})
			if c.T.Test {
				t.Test = new(core.TestFields)
			}
			t.TestOnly = c.T.TestOnly
			desc := []string{}
			for i, d := range c.Deps {
				dep := core.NewBuildTarget(core.BuildLabel{PackageName: joinSegs(d.Pkg), Name: fmt.Sprintf("d%d", i+1)})
				dep.TestOnly = d.TestOnly
				vis := []string{}
				for _, v := range d.Vis {
					if v.Kind == "sub" && len(v.Pkg) == 0 {
						dep.Visibility = append(dep.Visibility, core.WholeGraph[0]) // "PUBLIC"
						vis = append(vis, "PUBLIC")
					} else {
						s := patString(joinSegs(v.Pkg), v.Kind, strings.Join(v.Name, ""))
						dep.Visibility = append(dep.Visibility, mustLabel(s))
						vis = append(vis, s)
					}
				}
				g.AddTarget(dep)
				t.AddDependency(dep.Label)
				desc = append(desc, fmt.Sprintf("%s vis=%v test_only=%v", dep.Label, vis, d.TestOnly))
			}
			g.AddTarget(t)
			o["target"] = t.Label.String()
			o["deps"] = desc
			o["expdirs"] = dirs
			err := t.CheckDependencyVisibility(state)
			o["ok"] = err == nil
		}()
		emit(o)
		return nil
	})
}

// ------------------------------------------------------------------------------------------- filters

type filterTarget struct {
	Labels []string `json:"labels"`
	Test   bool     `json:"test"`
	Pkg    string   `json:"pkg"`
}

type filterCase struct {
	ID       any            `json:"id"`
	Universe []filterTarget `json:"universe"`
	Inc      []string       `json:"inc"`
	Exc      []string       `json:"exc"`
	Ep       []string       `json:"ep"`
}

func labelsFilterEngine(args []string) error {
	defer flush()
	cli.InitLogging(0)
	state := core.NewBuildState(core.DefaultConfiguration())
	var targets []*core.BuildTarget
	index := map[core.BuildLabel]int{}
	pkgNames := []string{}
	indices := func(ls core.BuildLabels) []int {
		r := []int{}
		for _, l := range ls {
			if i, ok := index[l]; ok {
				r = append(r, i)
			} else {
				r = append(r, -1)
			}
		}
		sort.Ints(r)
		return r
	}
	return readCases(args[0], func(raw json.RawMessage) error {
		var c filterCase
		if err := json.Unmarshal(raw, &c); err != nil {
			return err
		}
		if c.Universe != nil {
			g := core.NewGraph()
			pkgs := map[string]*core.Package{}
			for i, u := range c.Universe {
				t := core.NewBuildTarget(core.BuildLabel{PackageName: u.Pkg, Name: fmt.Sprintf("t%d", i)})
				for _, l := range u.Labels {
					t.AddLabel(l)
				}
				if u.Test {
					t.Test = new(core.TestFields)
				}
				if pkgs[u.Pkg] == nil {
					pkgs[u.Pkg] = core.NewPackage(u.Pkg)
					pkgNames = append(pkgNames, u.Pkg)
				}
				pkgs[u.Pkg].AddTarget(t)
				g.AddTarget(t)
				targets = append(targets, t)
				index[t.Label] = i
			}
			for _, p := range pkgs {
				g.AddPackage(p)
			}
			sort.Strings(pkgNames)
			state.Graph = g
			return nil
		}
		o := map[string]any{"id": c.ID}
		func() {
			defer func() {
				if r := recover(); r != nil {
					o["panic"] = fmt.Sprint(r)
				}
			}()
			// what --include / --exclude become (please.go: state.SetIncludeAndExclude(opts.BuildFlags.Include, ...Exclude))
			state.ExcludeTargets = nil
			state.SetIncludeAndExclude(c.Inc, append(append([]string{}, c.Exc...), c.Ep...))
			should := []int{}
			for i, t := range targets {
				if state.ShouldInclude(t) {
					should = append(should, i)
				}
			}
			o["should"] = should
			o["expand_sub"] = indices(state.ExpandLabels([]core.BuildLabel{{PackageName: "", Name: "..."}}))
			all := core.BuildLabels{}
			for _, p := range pkgNames {
				all = append(all, state.ExpandLabels([]core.BuildLabel{{PackageName: p, Name: "all"}})...)
			}
			o["expand_all"] = indices(all)
		}()
		emit(o)
		return nil
	})
}
