package main

import (
	"fmt"
	"os"
	"os/exec"
	"path/filepath"
	"strings"

	"github.com/thought-machine/please/src/fs"
)

// C32 (c): fs.WriteFile in a child process that SIGKILLs itself at each of its hook points; the destination
// must then hold the old content or the complete new content.
func init() {
	register("writefile-crash", writeFileCrash)
	register("writefile-child", writeFileChild)
}

var wfNew = strings.Repeat("NEW-CONTENT-", 20000)

func writeFileChild(args []string) error {
	return fs.WriteFile(strings.NewReader(wfNew), args[0], 0644)
}

func writeFileCrash(args []string) error {
	defer flush()
	dir := filepath.Join(os.Getenv("VERIF_SCRATCH"), "wf")
	os.MkdirAll(dir, 0775)
	defer os.RemoveAll(dir)
	dest := filepath.Join(dir, "dest.txt")
	steps := []map[string]any{}
	for _, fresh := range []bool{false, true} {
		for n := 1; n <= 4; n++ {
			os.Remove(dest)
			if !fresh {
				os.WriteFile(dest, []byte("OLD"), 0644)
			}
			pf := filepath.Join(dir, "points")
			os.Remove(pf)
			cmd := exec.Command(os.Args[0], "writefile-child", dest)
			cmd.Env = append(os.Environ(), fmt.Sprintf("VERIF_CRASH_AT=%d", n), "VERIF_CRASH_NAME=fs.WriteFile", "VERIF_POINTS="+pf)
			cmd.Run()
			pb, _ := os.ReadFile(pf)
			pts := strings.Fields(string(pb))
			point := "none"
			if len(pts) > 0 {
				point = pts[len(pts)-1]
			}
			state := "PARTIAL"
			info, err := os.Lstat(dest)
			b, _ := os.ReadFile(dest)
			switch {
			case err != nil:
				state = "ABSENT"
			case string(b) == "OLD" && !fresh:
				state = "OLD"
			case string(b) == wfNew && info.Mode().Perm() == 0644:
				state = "NEW-COMPLETE"
			case string(b) == wfNew:
				state = "NEW-WRONG-MODE"
			}
			steps = append(steps, map[string]any{"crashAt": n, "point": point, "dest": state, "len": len(b), "freshDestination": fresh})
		}
	}
	emit(map[string]any{"id": 0, "steps": steps})
	return nil
}
