package main

import (
	"encoding/json"
	"fmt"
	"sort"
	"strings"

	"github.com/thought-machine/please/src/cli"
	"github.com/thought-machine/please/src/core"
	"github.com/thought-machine/please/src/parse"
	"github.com/thought-machine/please/src/query"
)

// C24 in-process binding: the before and after repositories of a Changes.tla case arrive as BUILD file
// texts per package (rendered by lib/engines/testchg.py exactly as for the e2e binding); each side is
// interpreted by the REAL asp interpreter and build_rule builtin into a real core.BuildGraph (one
// BuildState per side, graphs swapped per case), and the real query.Changes (file list only) and
// query.DiffGraphs (before/after) are asked at the requested levels.  Observations are the printed labels.

type changesCase struct {
	ID     int               `json:"id"`
	Before map[string]string `json:"before"` // package name -> BUILD text
	After  map[string]string `json:"after"`
	Files  []string          `json:"files"`  // changed files (repo-relative), as the SCM would list them
	Modes  []string          `json:"modes"`  // "files" and/or "since"
	Levels []int             `json:"levels"` // e.g. [-1, 0]
}

func init() { register("changes", changesEngine) }

func changesParse(state *core.BuildState, builds map[string]string) (err error) {
	state.Graph = core.NewGraph()
	defer func() {
		if r := recover(); r != nil {
			err = fmt.Errorf("panic while parsing: %v", r)
		}
	}()
	names := make([]string, 0, len(builds))
	for name := range builds {
		names = append(names, name)
	}
	sort.Strings(names)
	for _, name := range names {
		pkg := core.NewPackage(name)
		pkg.Filename = strings.TrimPrefix(name+"/BUILD", "/")
		label := core.BuildLabel{PackageName: name, Name: "all"}
		dep := core.OriginalTarget
		if err := state.Parser.ParseReader(pkg, strings.NewReader(builds[name]), &label, &dep, core.ParseModeNormal); err != nil {
			return fmt.Errorf("package %q: %w", name, err)
		}
		state.Graph.AddPackage(pkg)
	}
	return nil
}

func labelStrings(ls core.BuildLabels) []string {
	out := make([]string, 0, len(ls))
	for _, l := range ls {
		out = append(out, l.String())
	}
	return out
}

func changesEngine(args []string) error {
	defer flush()
	cli.InitLogging(cli.MinVerbosity)
	before := core.NewDefaultBuildState()
	parse.InitParser(before)
	after := core.NewDefaultBuildState()
	parse.InitParser(after)
	return readCases(args[0], func(raw json.RawMessage) error {
		var c changesCase
		if err := json.Unmarshal(raw, &c); err != nil {
			return err
		}
		obs := map[string]any{"id": c.ID}
		if err := changesParse(before, c.Before); err != nil {
			obs["error"] = "before: " + err.Error()
			emit(obs)
			return nil
		}
		if err := changesParse(after, c.After); err != nil {
			obs["error"] = "after: " + err.Error()
			emit(obs)
			return nil
		}
		res := map[string]map[string][]string{}
		func() {
			defer func() {
				if r := recover(); r != nil {
					obs["error"] = fmt.Sprintf("panic in query: %v", r)
				}
			}()
			for _, mode := range c.Modes {
				res[mode] = map[string][]string{}
				for _, level := range c.Levels {
					var ls core.BuildLabels
					if mode == "files" {
						ls = query.Changes(after, c.Files, level, false)
					} else {
						ls = query.DiffGraphs(before, after, c.Files, level, false)
					}
					res[mode][fmt.Sprint(level)] = labelStrings(ls)
				}
			}
		}()
		obs["reported"] = res
		emit(obs)
		return nil
	})
}
