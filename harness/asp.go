package main

import (
	"encoding/base64"
	"encoding/json"
	"errors"
	"fmt"
	"os"
	"reflect"
	"regexp"
	"runtime"
	"runtime/debug"
	"strings"
	"sync"
	"time"

	"github.com/thought-machine/please/src/cli"
	"github.com/thought-machine/please/src/parse"
	"github.com/thought-machine/please/src/parse/asp"
)

// C16/C18: every case is a BUILD-language program (rendered from a TLC-generated statement list); the
// observation is what the real interpreter computed: either the JSON of probe variables appended to the
// program (probes) or the content of text_file targets the program itself creates (targets: the program
// snapshots its variables with `text_file(name=.., content=json(v))` after each statement).
// With defs set, that text is first made available as a subincludable build_defs target and the program
// imports it through the real subinclude() builtin.
func init() {
	register("asp", aspEngine)
}

type aspCase struct {
	ID      any      `json:"id"`
	Src     string   `json:"src"`
	Probes  []string `json:"probes"`
	Targets []string `json:"targets"`
	Defs    *string  `json:"defs"`
	// Incs: build_defs texts; the i-th becomes a subincludable target whose label replaces @INC<i>@ in src,
	// so a program can import values at any point with subinclude("@INC0@").
	Incs []string `json:"incs"`
}

func aspEngine(args []string) error {
	defer flush()
	return readCases(args[0], func(raw json.RawMessage) error {
		var c aspCase
		if err := json.Unmarshal(raw, &c); err != nil {
			return err
		}
		o := map[string]any{"id": c.ID}
		src := c.Src
		if c.Defs != nil {
			label, err := aspDefineSubinclude(*c.Defs)
			if err != nil {
				return err
			}
			src = fmt.Sprintf("subinclude(%q)\n", label) + src
		}
		for i, inc := range c.Incs {
			label, err := aspDefineSubinclude(inc)
			if err != nil {
				return err
			}
			src = strings.ReplaceAll(src, fmt.Sprintf("@INC%d@", i), label)
		}
		if len(c.Targets) > 0 {
			pkg, err := aspEvalPackage(src+aspProbeSuffix(c.Probes), "")
			if err != nil {
				o["err"] = err.Error()
			} else {
				tv := map[string]string{}
				for _, name := range c.Targets {
					if t := pkg.Target(name); t != nil {
						tv[name] = t.FileContent
					}
				}
				o["targets"] = tv
			}
		} else {
			vals, err := aspEval(src, c.Probes)
			if err != nil {
				o["err"] = err.Error()
			} else {
				o["values"] = vals
			}
		}
		emit(o)
		return nil
	})
}

// C19: every case is a token sequence of AspTokens.tla; the first input line is a header with the driver's
// rendering table (token name -> bytes), separators and frames.  Each sequence is rendered under every
// variant and handed to the real Parser.ParseData.  One output line per sequence, flushed at once so that
// a crash of this process identifies the sequence it died on: `out` has one letter per variant
// (p = program, e = error carrying a position), anything else is listed in `bad` with the input bytes.
func init() {
	register("asptok", aspTokEngine)
}

type aspTokHeader struct {
	Render   map[string]string `json:"render"` // token -> base64 bytes
	Seps     [][2]string       `json:"seps"`   // name, base64 bytes
	Frames   [][3]string       `json:"frames"` // name, base64 prefix, base64 suffix
	TimeoutM int               `json:"timeout_ms"`
	Trace    bool              `json:"trace"`
}

type aspTokCase struct {
	ID   any      `json:"id"`
	Toks []string `json:"toks"`
}

var runtimeErrText = regexp.MustCompile(`runtime error|index out of range|nil pointer|invalid memory address|slice bounds out of range|nil map|interface conversion|stack overflow|unreachable`)

var aspFrame = regexp.MustCompile(`(?m)^github\.com/thought-machine/please/src/parse/(asp\.[\w.()*]+)\(`)

// aspSiteOf names the function of package asp that panicked, from a Go stack dump: the first asp frame after `panic(`.
func aspSiteOf(stack string) string {
	if i := strings.LastIndex(stack, "\npanic("); i >= 0 {
		stack = stack[i:]
	}
	for _, m := range aspFrame.FindAllStringSubmatch(stack, -1) {
		if !strings.Contains(m[1], "parseFileInput.func") {
			return strings.NewReplacer("(*", "", ")", "").Replace(m[1])
		}
	}
	return "?"
}

// aspPanicSite re-parses data with the parser's debug log (which carries the stack of the recovered panic) captured.
func aspPanicSite(p *asp.Parser, data []byte) string {
	f, err := os.CreateTemp("", "asplog")
	if err != nil {
		return "?"
	}
	defer os.Remove(f.Name())
	old := os.Stderr
	os.Stderr = f
	cli.InitLogging(cli.MaxVerbosity)
	func() {
		defer func() { recover() }()
		p.ParseData(data, "verif/BUILD")
	}()
	os.Stderr = old
	cli.InitLogging(cli.MinVerbosity)
	f.Close()
	b, _ := os.ReadFile(f.Name())
	return aspSiteOf(string(b))
}

// aspParseOutcome classifies what ParseData did with data.
func aspParseOutcome(p *asp.Parser, data []byte) (kind, msg string) {
	defer func() {
		if r := recover(); r != nil {
			kind, msg = "escaped-panic", fmt.Sprintf("%v at %s", r, aspSiteOf(string(debug.Stack())))
		}
	}()
	_, err := p.ParseData(data, "verif/BUILD")
	if err == nil {
		return "program", ""
	}
	// the parser's own error type exposes the bare message; anything else is printed in full
	if se, ok := err.(interface{ ShortError() string }); ok {
		msg = se.ShortError()
	} else {
		msg = err.Error()
	}
	typ := fmt.Sprintf("%T", err)
	var re runtime.Error
	if errors.As(err, &re) || runtimeErrText.MatchString(msg) {
		return "internal-runtime-error", typ + ": " + msg
	}
	// a position: the parser's own error type records at least one FilePosition (exported field of an unexported type)
	v := reflect.ValueOf(err)
	if v.Kind() == reflect.Ptr && v.Elem().Kind() == reflect.Struct {
		if st := v.Elem().FieldByName("Stack"); st.IsValid() && st.Kind() == reflect.Slice && st.Len() > 0 {
			if line := st.Index(0).FieldByName("Line"); line.IsValid() && line.Int() >= 1 {
				return "positioned-error", msg
			}
		}
	}
	return "error-without-position", typ + ": " + msg
}

// the parse that is running now, for the watchdog: parsing happens on the main goroutine, which cannot be
// interrupted; a watchdog reports a parse that exceeds the time limit and ends the process
var aspTokNow struct {
	sync.Mutex
	since time.Time
	id    any
	sep   string
	frame string
	data  []byte
	out   []byte
}

func aspTokWatchdog(limit time.Duration) {
	for {
		time.Sleep(200 * time.Millisecond)
		aspTokNow.Lock()
		if !aspTokNow.since.IsZero() && time.Since(aspTokNow.since) > limit {
			b, _ := json.Marshal(map[string]any{"id": aspTokNow.id, "out": string(aspTokNow.out) + "!", "bad": []map[string]any{{
				"sep": aspTokNow.sep, "frame": aspTokNow.frame, "kind": "hang", "msg": fmt.Sprintf("no result after %s", limit),
				"data": base64.StdEncoding.EncodeToString(aspTokNow.data)}}})
			flush()
			os.Stdout.Write(append(b, '\n'))
			os.Exit(3)
		}
		aspTokNow.Unlock()
	}
}

func aspTokEngine(args []string) error {
	defer flush()
	state := aspInit()
	p := parse.GetAspParser(state)
	if p == nil {
		return fmt.Errorf("no asp parser")
	}
	var hdr *aspTokHeader
	b64 := func(s string) []byte {
		b, err := base64.StdEncoding.DecodeString(s)
		if err != nil {
			panic(err)
		}
		return b
	}
	render := map[string][]byte{}
	type sepT struct {
		name string
		b    []byte
	}
	type frameT struct {
		name     string
		pre, suf []byte
	}
	var seps []sepT
	var frames []frameT
	return readCases(args[0], func(raw json.RawMessage) error {
		if hdr == nil {
			hdr = &aspTokHeader{}
			if err := json.Unmarshal(raw, hdr); err != nil {
				return err
			}
			for t, r := range hdr.Render {
				render[t] = b64(r)
			}
			for _, s := range hdr.Seps {
				seps = append(seps, sepT{s[0], b64(s[1])})
			}
			for _, f := range hdr.Frames {
				frames = append(frames, frameT{f[0], b64(f[1]), b64(f[2])})
			}
			go aspTokWatchdog(time.Duration(hdr.TimeoutM) * time.Millisecond)
			return nil
		}
		var c aspTokCase
		if err := json.Unmarshal(raw, &c); err != nil {
			return err
		}
		out := make([]byte, 0, len(seps)*len(frames))
		bad := []map[string]any{}
		for _, sep := range seps {
			for _, fr := range frames {
				data := append([]byte{}, fr.pre...)
				for i, t := range c.Toks {
					if i > 0 {
						data = append(data, sep.b...)
					}
					r, ok := render[t]
					if !ok {
						return fmt.Errorf("token %q has no rendering", t)
					}
					data = append(data, r...)
				}
				data = append(data, fr.suf...)
				if hdr.Trace {
					fmt.Fprintf(os.Stderr, "TRACE %v %s/%s %q\n", c.ID, sep.name, fr.name, data)
				}
				aspTokNow.Lock()
				aspTokNow.since, aspTokNow.id, aspTokNow.sep, aspTokNow.frame, aspTokNow.data, aspTokNow.out = time.Now(), c.ID, sep.name, fr.name, data, out
				aspTokNow.Unlock()
				kind, msg := aspParseOutcome(p, data)
				aspTokNow.Lock()
				aspTokNow.since = time.Time{}
				aspTokNow.Unlock()
				switch kind {
				case "program":
					out = append(out, 'p')
				case "positioned-error":
					out = append(out, 'e')
				default:
					out = append(out, '!')
					site := ""
					if kind != "escaped-panic" {
						site = aspPanicSite(p, data)
					}
					bad = append(bad, map[string]any{"sep": sep.name, "frame": fr.name, "kind": kind, "msg": msg, "site": site,
						"data": base64.StdEncoding.EncodeToString(data)})
				}
			}
		}
		o := map[string]any{"id": c.ID, "out": string(out)}
		if len(bad) > 0 {
			o["bad"] = bad
		}
		emit(o)
		flush()
		return nil
	})
}
