package main

import (
	"context"
	"encoding/json"
	"errors"
	"fmt"
	"io"
	iofs "io/fs"
	"os"
	"os/exec"
	"path/filepath"
	"runtime/debug"
	"sort"
	"strings"
	"sync"
	"testing/fstest"
	"time"

	"github.com/bazelbuild/remote-apis-sdks/go/pkg/client"
	"github.com/bazelbuild/remote-apis-sdks/go/pkg/digest"
	pb "github.com/bazelbuild/remote-apis/build/bazel/remote/execution/v2"
	"google.golang.org/grpc/codes"
	"google.golang.org/grpc/status"

	"github.com/thought-machine/please/src/cli"
	remotefs "github.com/thought-machine/please/src/remote/fs"
)

// C29: every TLC-enumerated tree (RemoteTreeFS.tla) is turned into a real REAPI pb.Tree plus an in-memory CAS,
// wrapped with the real remotefs.New, and every query path is put through Open / Stat / fs.ReadFile / fs.ReadDir.
//
//	vh casfs <cases>         parent: never touches the code under test itself. Splits the cases over
//	                         `casfs-worker` subprocesses (a crash there is an observation of the case it was on),
//	                         and runs EVERY query the spec marks risky (symlink loop, absolute symlink) in its own
//	                         `casfs-one` subprocess with a timeout: stack overflow, panic and hang are observations.
//	vh casfs-worker <cases>  in-process observations of the non-risky queries, fstest.TestFS, ReadDir handle scenarios
//	vh casfs-one <case>      Open of one path
func init() {
	register("casfs", casfsParent)
	register("casfs-worker", casfsWorker)
	register("casfs-one", casfsOne)
}

type cfNode struct {
	P    []int  `json:"p"`
	K    string `json:"k"`
	C    int    `json:"c"`
	Abs  bool   `json:"abs"`
	Segs []int  `json:"segs"`
}

type cfQuery struct {
	Q     []int `json:"q"`
	Risky bool  `json:"risky"`
	Skip  bool  `json:"skip"` // risky and not run in this tier (sampled out): no Open at all
}

type cfCase struct {
	ID     int       `json:"id"`
	Nodes  []cfNode  `json:"nodes"`
	FsTest bool      `json:"fstest"`
	Qs     []cfQuery `json:"qs"`
	Handle bool      `json:"handle"`
	N      int       `json:"n"`
	Calls  []int     `json:"calls"`
}

func cfName(n int) string {
	if n == 0 {
		return ".."
	}
	return string(rune('a' + n - 1))
}

func cfPath(p []int) string {
	if len(p) == 0 {
		return "."
	}
	s := make([]string, len(p))
	for i, n := range p {
		s[i] = cfName(n)
	}
	return strings.Join(s, "/")
}

func cfContent(c int) []byte {
	if c == 1 {
		return []byte("content one, a little longer\n")
	}
	return []byte("content zero\n")
}

func cfTarget(n cfNode) string {
	t := cfPath(n.Segs)
	if len(n.Segs) == 0 {
		t = ""
	}
	if n.Abs {
		return "/" + t
	}
	return t
}

// memCAS is the in-memory content addressable store behind the filesystem.
type memCAS struct{ blobs map[digest.Digest][]byte }

func (m *memCAS) ReadBlob(_ context.Context, d digest.Digest) ([]byte, *client.MovedBytesMetadata, error) {
	b, ok := m.blobs[d]
	if !ok {
		return nil, nil, status.Errorf(codes.NotFound, "blob %s not found", d)
	}
	return b, &client.MovedBytesMetadata{}, nil
}

// cfBuild renders the nodes as a canonical REAPI Tree (entries sorted by name, every directory in Children).
func cfBuild(nodes []cfNode) (*pb.Tree, *memCAS) {
	cas := &memCAS{blobs: map[digest.Digest][]byte{}}
	tree := &pb.Tree{}
	var build func(prefix string) *pb.Directory
	build = func(prefix string) *pb.Directory {
		d := &pb.Directory{}
		kids := []cfNode{}
		for _, n := range nodes {
			if len(n.P) >= 1 && cfPath(n.P[:len(n.P)-1]) == prefix {
				kids = append(kids, n)
			}
		}
		sort.Slice(kids, func(i, j int) bool { return cfPath(kids[i].P) < cfPath(kids[j].P) })
		for _, n := range kids {
			name := cfName(n.P[len(n.P)-1])
			switch n.K {
			case "f":
				b := cfContent(n.C)
				dg := digest.NewFromBlob(b)
				cas.blobs[dg] = b
				d.Files = append(d.Files, &pb.FileNode{Name: name, Digest: dg.ToProto()})
			case "l":
				d.Symlinks = append(d.Symlinks, &pb.SymlinkNode{Name: name, Target: cfTarget(n)})
			case "d":
				child := build(cfPath(n.P))
				tree.Children = append(tree.Children, child)
				d.Directories = append(d.Directories, &pb.DirectoryNode{Name: name, Digest: digest.TestNewFromMessage(child).ToProto()})
			}
		}
		return d
	}
	tree.Root = build(".")
	return tree, cas
}

func cfKind(m iofs.FileMode) string {
	switch {
	case m&iofs.ModeDir != 0:
		return "d"
	case m&iofs.ModeSymlink != 0:
		return "l"
	case m.IsRegular():
		return "f"
	}
	return "?"
}

func cfErr(o map[string]any, err error) {
	o["ok"] = false
	o["err"] = err.Error()
	o["notexist"] = errors.Is(err, iofs.ErrNotExist)
	var pe *iofs.PathError
	o["patherror"] = errors.As(err, &pe)
}

func cfEntries(es []iofs.DirEntry) [][]string {
	out := [][]string{}
	for _, e := range es {
		out = append(out, []string{e.Name(), cfKind(e.Type())})
	}
	return out
}

// cfOpen: Open(path) and what the returned file says about itself.
func cfOpen(fsys iofs.FS, path string) (o map[string]any) {
	o = map[string]any{}
	defer func() {
		if r := recover(); r != nil {
			o["ok"] = false
			o["panic"] = fmt.Sprint(r)
		}
	}()
	f, err := fsys.Open(path)
	if err != nil {
		cfErr(o, err)
		return o
	}
	defer f.Close()
	o["ok"] = true
	info, err := f.Stat()
	if err != nil {
		o["stat_err"] = err.Error()
		return o
	}
	o["kind"] = cfKind(info.Mode())
	o["isdir"] = info.IsDir()
	o["size"] = info.Size()
	o["name"] = info.Name()
	if info.IsDir() {
		if rd, ok := f.(iofs.ReadDirFile); ok {
			es, err := rd.ReadDir(-1)
			if err != nil {
				o["readdir_err"] = err.Error()
			}
			o["readdir"] = cfEntries(es)
		} else {
			o["readdir_err"] = "not a ReadDirFile"
		}
	} else {
		b, err := io.ReadAll(f)
		if err != nil {
			o["read_err"] = err.Error()
		}
		o["content"] = string(b)
	}
	return o
}

func cfSafe(fn func(o map[string]any)) (o map[string]any) {
	o = map[string]any{}
	defer func() {
		if r := recover(); r != nil {
			o["ok"] = false
			o["panic"] = fmt.Sprint(r)
		}
	}()
	fn(o)
	return o
}

func cfObserveCase(c *cfCase) map[string]any {
	res := map[string]any{"id": c.ID}
	if c.Handle {
		res["handle"] = cfHandle(c)
		return res
	}
	tree, cas := cfBuild(c.Nodes)
	fsys := remotefs.New(cas, tree, "")
	qs := []map[string]any{}
	for _, q := range c.Qs {
		path := cfPath(q.Q)
		o := map[string]any{"q": q.Q, "path": path}
		o["stat"] = cfSafe(func(o map[string]any) {
			info, err := iofs.Stat(fsys, path)
			if err != nil {
				cfErr(o, err)
				return
			}
			o["ok"] = true
			o["kind"] = cfKind(info.Mode())
			o["size"] = info.Size()
			o["name"] = info.Name()
		})
		if !q.Risky {
			o["open"] = cfOpen(fsys, path)
			o["readfile"] = cfSafe(func(o map[string]any) {
				b, err := iofs.ReadFile(fsys, path)
				if err != nil {
					cfErr(o, err)
					return
				}
				o["ok"] = true
				o["content"] = string(b)
			})
			o["fsreaddir"] = cfSafe(func(o map[string]any) {
				es, err := iofs.ReadDir(fsys, path)
				if err != nil {
					cfErr(o, err)
					return
				}
				o["ok"] = true
				o["list"] = cfEntries(es)
			})
		}
		qs = append(qs, o)
	}
	res["qs"] = qs
	if c.FsTest {
		res["fstest"] = cfSafe(func(o map[string]any) {
			expected := []string{}
			for _, n := range c.Nodes {
				expected = append(expected, cfPath(n.P))
			}
			err := fstest.TestFS(remotefs.New(cas, tree, ""), expected...)
			o["ok"] = err == nil
			if err != nil {
				lines := strings.Split(err.Error(), "\n")
				if len(lines) > 60 {
					lines = lines[:60]
				}
				o["errors"] = lines
			}
		})
	}
	return res
}

// cfHandle: one directory of n files, one Open, the scenario's ReadDir(k) calls on that handle.
func cfHandle(c *cfCase) map[string]any {
	return cfSafe(func(o map[string]any) {
		nodes := []cfNode{}
		for i := 1; i <= c.N; i++ {
			nodes = append(nodes, cfNode{P: []int{i}, K: "f", C: 0})
		}
		tree, cas := cfBuild(nodes)
		fsys := remotefs.New(cas, tree, "")
		f, err := fsys.Open(".")
		if err != nil {
			cfErr(o, err)
			return
		}
		defer f.Close()
		rd, ok := f.(iofs.ReadDirFile)
		if !ok {
			o["ok"] = false
			o["err"] = "not a ReadDirFile"
			return
		}
		calls := []map[string]any{}
		for _, k := range c.Calls {
			es, err := rd.ReadDir(k)
			call := map[string]any{"k": k, "names": func() []string {
				s := []string{}
				for _, e := range es {
					s = append(s, e.Name())
				}
				return s
			}(), "eof": err == io.EOF}
			if err != nil && err != io.EOF {
				call["err"] = err.Error()
			}
			calls = append(calls, call)
		}
		o["ok"] = true
		o["calls"] = calls
	})
}

func casfsWorker(args []string) error {
	cli.InitLogging(cli.MinVerbosity)
	debug.SetMaxStack(8 << 20) // an unexpected runaway recursion dies quickly instead of eating 1 GB
	return readCases(args[0], func(raw json.RawMessage) error {
		var c cfCase
		if err := json.Unmarshal(raw, &c); err != nil {
			return err
		}
		emit(cfObserveCase(&c))
		flush() // line by line: the parent attributes a crash to the first case without output
		return nil
	})
}

type cfOneCase struct {
	J     int      `json:"j"`
	Nodes []cfNode `json:"nodes"`
	Q     []int    `json:"q"`
}

// casfsOne: Open of one path per job, one answer line per job, flushed at once: when the process dies the parent
// attributes the death to the first job without an answer and starts a new process for the jobs after it.
func casfsOne(args []string) error {
	cli.InitLogging(cli.MinVerbosity)
	// The default limit is 1 GB: an unbounded recursion would still overflow, only much slower (the collector
	// rescans the ever deeper stack) and at the price of 1 GB per case. The verdict (crash, not an error) is the same.
	debug.SetMaxStack(1 << 20)
	return readCases(args[0], func(raw json.RawMessage) error {
		var c cfOneCase
		if err := json.Unmarshal(raw, &c); err != nil {
			return err
		}
		tree, cas := cfBuild(c.Nodes)
		fsys := remotefs.New(cas, tree, "")
		o := cfOpen(fsys, cfPath(c.Q))
		o["j"] = c.J
		emit(o)
		flush()
		return nil
	})
}

func cfTail(s string, n int) string {
	if len(s) > n {
		return s[:n]
	}
	return s
}

// cfRunBatch runs risky Opens outside the parent: a subprocess answers job after job; if it dies or hangs the
// first unanswered job is the one that killed it, and the rest is given to a new subprocess.
func cfRunBatch(self, dir string, seq int, jobs []cfOneCase, results map[int]map[string]any, mu *sync.Mutex) {
	for attempt := 0; len(jobs) > 0; attempt++ {
		file := filepath.Join(dir, fmt.Sprintf("one-%d-%d.ndjson", seq, attempt))
		var sb strings.Builder
		for _, j := range jobs {
			b, _ := json.Marshal(j)
			sb.Write(b)
			sb.WriteByte('\n')
		}
		if err := os.WriteFile(file, []byte(sb.String()), 0o644); err != nil {
			mu.Lock()
			results[jobs[0].J] = map[string]any{"infra": err.Error()}
			mu.Unlock()
			return
		}
		ctx, cancel := context.WithTimeout(context.Background(), 120*time.Second)
		cmd := exec.CommandContext(ctx, self, "casfs-one", file)
		cmd.Env = append(os.Environ(), "GOTRACEBACK=none") // "fatal error: stack overflow" is enough; unwinding the dead stack is slow
		var stdout, stderr strings.Builder
		cmd.Stdout, cmd.Stderr = &stdout, &stderr
		err := cmd.Run()
		timedOut := ctx.Err() == context.DeadlineExceeded
		cancel()
		os.Remove(file)
		done := 0
		mu.Lock()
		for _, line := range strings.Split(stdout.String(), "\n") {
			if !strings.HasPrefix(line, "{") {
				continue
			}
			var o map[string]any
			if json.Unmarshal([]byte(line), &o) != nil {
				continue
			}
			results[int(o["j"].(float64))] = o
			done++
		}
		mu.Unlock()
		if done >= len(jobs) {
			return
		}
		if err == nil {
			mu.Lock()
			results[jobs[done].J] = map[string]any{"infra": "casfs-one ended without answering: " + cfTail(stderr.String(), 300)}
			mu.Unlock()
			return
		}
		msg := stderr.String()
		first := msg
		if i := strings.Index(msg, "\n\n"); i > 0 {
			first = msg[:i]
		}
		mu.Lock()
		if timedOut {
			results[jobs[done].J] = map[string]any{"hang": true, "ok": false}
		} else {
			results[jobs[done].J] = map[string]any{"crash": true, "ok": false, "exit": cmd.ProcessState.ExitCode(), "stderr": cfTail(first, 400),
				"stack_overflow": strings.Contains(msg, "stack overflow") || strings.Contains(msg, "goroutine stack exceeds")}
		}
		mu.Unlock()
		jobs = jobs[done+1:]
	}
}

// cfRunChunk runs a chunk of cases in a worker subprocess; a case the worker died on is reported as such and
// the rest of the chunk is retried in a new worker.
func cfRunChunk(self, dir string, k int, chunk []*cfCase, out map[int]map[string]any, mu *sync.Mutex) error {
	for attempt := 0; len(chunk) > 0; attempt++ {
		file := filepath.Join(dir, fmt.Sprintf("chunk-%d-%d.ndjson", k, attempt))
		f, err := os.Create(file)
		if err != nil {
			return err
		}
		for _, c := range chunk {
			b, _ := json.Marshal(c)
			f.Write(b)
			f.Write([]byte("\n"))
		}
		f.Close()
		ctx, cancel := context.WithTimeout(context.Background(), 600*time.Second)
		cmd := exec.CommandContext(ctx, self, "casfs-worker", file)
		var stdout, stderr strings.Builder
		cmd.Stdout, cmd.Stderr = &stdout, &stderr
		err = cmd.Run()
		cancel()
		os.Remove(file)
		done := 0
		mu.Lock()
		for _, line := range strings.Split(stdout.String(), "\n") {
			if !strings.HasPrefix(line, "{") {
				continue
			}
			var o map[string]any
			if json.Unmarshal([]byte(line), &o) != nil {
				continue
			}
			id := int(o["id"].(float64))
			out[id] = o
			done++
		}
		mu.Unlock()
		if err == nil {
			return nil
		}
		if done >= len(chunk) {
			return nil
		}
		// the worker died on chunk[done]
		msg := stderr.String()
		first := msg
		if i := strings.Index(msg, "\n\n"); i > 0 {
			first = msg[:i]
		}
		mu.Lock()
		out[chunk[done].ID] = map[string]any{"id": chunk[done].ID, "worker_crash": true, "stderr": cfTail(first, 400),
			"hang": ctx.Err() == context.DeadlineExceeded}
		mu.Unlock()
		chunk = chunk[done+1:]
	}
	return nil
}

func casfsParent(args []string) error {
	defer flush()
	self, err := os.Executable()
	if err != nil {
		return err
	}
	dir, err := os.MkdirTemp(os.Getenv("VERIF_SCRATCH"), "casfs-")
	if err != nil {
		return err
	}
	defer os.RemoveAll(dir)
	cases := []*cfCase{}
	if err := readCases(args[0], func(raw json.RawMessage) error {
		c := &cfCase{}
		if err := json.Unmarshal(raw, c); err != nil {
			return err
		}
		cases = append(cases, c)
		return nil
	}); err != nil {
		return err
	}
	par := 6
	out := map[int]map[string]any{}
	var mu sync.Mutex
	var wg sync.WaitGroup
	sem := make(chan struct{}, par)
	var firstErr error
	const chunkSize = 120
	for k := 0; k*chunkSize < len(cases); k++ {
		end := (k + 1) * chunkSize
		if end > len(cases) {
			end = len(cases)
		}
		chunk := cases[k*chunkSize : end]
		wg.Add(1)
		sem <- struct{}{}
		go func(k int, chunk []*cfCase) {
			defer wg.Done()
			defer func() { <-sem }()
			if err := cfRunChunk(self, dir, k, chunk, out, &mu); err != nil {
				mu.Lock()
				firstErr = err
				mu.Unlock()
			}
		}(k, chunk)
	}
	wg.Wait()
	if firstErr != nil {
		return firstErr
	}
	// every risky Open in its own process
	type job struct {
		c  *cfCase
		qi int
	}
	jobs := []job{}
	for _, c := range cases {
		for qi, q := range c.Qs {
			if q.Risky && !q.Skip {
				jobs = append(jobs, job{c, qi})
			}
		}
	}
	results := map[int]map[string]any{}
	const batch = 150
	for k := 0; k*batch < len(jobs); k++ {
		end := (k + 1) * batch
		if end > len(jobs) {
			end = len(jobs)
		}
		one := []cfOneCase{}
		for i := k * batch; i < end; i++ {
			one = append(one, cfOneCase{J: i, Nodes: jobs[i].c.Nodes, Q: jobs[i].c.Qs[jobs[i].qi].Q})
		}
		wg.Add(1)
		sem <- struct{}{}
		go func(k int, one []cfOneCase) {
			defer wg.Done()
			defer func() { <-sem }()
			cfRunBatch(self, dir, k, one, results, &mu)
		}(k, one)
	}
	wg.Wait()
	for i, j := range jobs {
		o := out[j.c.ID]
		if o == nil || o["qs"] == nil {
			continue
		}
		qs := o["qs"].([]any)
		if j.qi < len(qs) {
			r := results[i]
			if r == nil {
				r = map[string]any{"infra": "no answer for a risky query"}
			}
			qs[j.qi].(map[string]any)["open"] = r
			qs[j.qi].(map[string]any)["subprocess"] = true
		}
	}
	for _, c := range cases {
		if o := out[c.ID]; o != nil {
			emit(o)
		}
	}
	return nil
}
