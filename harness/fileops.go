package main

import (
	"encoding/json"
	"fmt"
	"os"
	"path/filepath"
	"sort"
	"strings"
	"syscall"

	"github.com/thought-machine/please/src/cli"
	"github.com/thought-machine/please/src/fs"
)

// C34: every TLC-enumerated source tree (FileOps.tla) is materialised in a scratch directory and copied / linked by
// the real fs.RecursiveCopy, fs.RecursiveLink and fs.RecursiveCopyOrLinkFile (link without fallback), onto the same
// filesystem (os.Link works) and onto another filesystem (os.Link fails with EXDEV). The observation is the Lstat
// snapshot of the source before and after and of the destination; the verdict is Python's.
func init() { register("fileops", fileopsEngine) }

type foNode struct {
	P []int  `json:"p"`
	K string `json:"k"`
	C int    `json:"c"`
	T []int  `json:"t"`
}

type foMode struct {
	Link     bool `json:"link"`
	Works    bool `json:"works"`
	Fallback bool `json:"fallback"`
}

type foCase struct {
	ID      int      `json:"id"`
	Root    foNode   `json:"root"`
	Entries []foNode `json:"entries"`
	Modes   []foMode `json:"modes"`
}

func foName(n int) string {
	switch n {
	case 0:
		return ".."
	case 7:
		return "t_file"
	case 8:
		return "t_dir"
	case 9:
		return "nowhere"
	}
	return string(rune('a' + n - 1))
}

func foPath(p []int) string {
	s := make([]string, len(p))
	for i, n := range p {
		s[i] = foName(n)
	}
	return strings.Join(s, "/")
}

func foContent(c int) string {
	switch c {
	case 1:
		return "one, longer\n"
	case 7:
		return "sibling file\n"
	}
	return "zero\n"
}

func foMaterialise(path string, n foNode) error {
	switch n.K {
	case "d":
		return os.Mkdir(path, 0o755)
	case "f":
		return os.WriteFile(path, []byte(foContent(n.C)), 0o644)
	case "l":
		return os.Symlink(foPath(n.T), path)
	}
	return fmt.Errorf("unknown kind %q", n.K)
}

type foEntry struct {
	K       string `json:"k"`
	Content string `json:"content,omitempty"`
	Target  string `json:"target,omitempty"`
	Perm    uint32 `json:"perm"`
	Ino     uint64 `json:"ino"`
}

// foSnapshot: Lstat view of everything at and below path, keyed by the path relative to it ("." is the root).
func foSnapshot(path string) map[string]foEntry {
	out := map[string]foEntry{}
	var rec func(p, rel string)
	rec = func(p, rel string) {
		info, err := os.Lstat(p)
		if err != nil {
			return
		}
		e := foEntry{Perm: uint32(info.Mode().Perm())}
		if st, ok := info.Sys().(*syscall.Stat_t); ok {
			e.Ino = st.Ino
		}
		switch {
		case info.Mode()&os.ModeSymlink != 0:
			e.K = "l"
			e.Target, _ = os.Readlink(p)
		case info.IsDir():
			e.K = "d"
		case info.Mode().IsRegular():
			e.K = "f"
			b, _ := os.ReadFile(p)
			e.Content = string(b)
		default:
			e.K = "?"
		}
		out[rel] = e
		if e.K == "d" {
			names, _ := os.ReadDir(p)
			for _, n := range names {
				r := n.Name()
				if rel != "." {
					r = rel + "/" + n.Name()
				}
				rec(filepath.Join(p, n.Name()), r)
			}
		}
	}
	rec(path, ".")
	return out
}

func foOtherDevice(scratch string) string {
	var a, b syscall.Stat_t
	if syscall.Stat(scratch, &a) != nil {
		return ""
	}
	for _, cand := range []string{"/dev/shm", "/run", "/var/tmp", "/tmp"} {
		if syscall.Stat(cand, &b) == nil && b.Dev != a.Dev {
			d, err := os.MkdirTemp(cand, "trees-fileops-")
			if err == nil {
				return d
			}
		}
	}
	return ""
}

func fileopsEngine(args []string) error {
	defer flush()
	cli.InitLogging(cli.MinVerbosity)
	scratch := os.Getenv("VERIF_SCRATCH")
	if scratch == "" {
		scratch = os.TempDir()
	}
	other := foOtherDevice(scratch)
	if other != "" {
		defer os.RemoveAll(other)
	}
	seq := 0
	return readCases(args[0], func(raw json.RawMessage) error {
		var c foCase
		if err := json.Unmarshal(raw, &c); err != nil {
			return err
		}
		sort.SliceStable(c.Entries, func(i, j int) bool { return len(c.Entries[i].P) < len(c.Entries[j].P) })
		modes := []map[string]any{}
		for _, m := range c.Modes {
			seq++
			o := map[string]any{"link": m.Link, "works": m.Works, "fallback": m.Fallback}
			modes = append(modes, o)
			base := filepath.Join(scratch, fmt.Sprintf("fo%d", seq))
			srcParent := filepath.Join(base, "s")
			dstParent := filepath.Join(base, "d")
			if !m.Works {
				if other == "" {
					o["skipped"] = "no second filesystem to make os.Link fail"
					continue
				}
				dstParent = filepath.Join(other, fmt.Sprintf("fo%d", seq))
			}
			if err := os.MkdirAll(srcParent, 0o755); err != nil {
				return err
			}
			if err := os.MkdirAll(dstParent, 0o755); err != nil {
				return err
			}
			// siblings a root symlink may point at
			os.WriteFile(filepath.Join(srcParent, "t_file"), []byte(foContent(7)), 0o644)
			os.MkdirAll(filepath.Join(srcParent, "t_dir", "inner"), 0o755)
			src := filepath.Join(srcParent, "src")
			dst := filepath.Join(dstParent, "dst")
			if err := foMaterialise(src, c.Root); err != nil {
				return err
			}
			for _, e := range c.Entries {
				if err := foMaterialise(filepath.Join(src, foPath(e.P)), e); err != nil {
					return err
				}
			}
			o["src_before"] = foSnapshot(src)
			var err error
			func() {
				defer func() {
					if r := recover(); r != nil {
						o["panic"] = fmt.Sprint(r)
					}
				}()
				switch {
				case !m.Link:
					o["api"] = "RecursiveCopy"
					err = fs.RecursiveCopy(src, dst, 0o644)
				case m.Fallback:
					o["api"] = "RecursiveLink"
					err = fs.RecursiveLink(src, dst)
				default:
					o["api"] = "RecursiveCopyOrLinkFile(link, no fallback)"
					err = fs.RecursiveCopyOrLinkFile(src, dst, 0o644, true, false)
				}
			}()
			if err != nil {
				o["err"] = err.Error()
			}
			o["src_after"] = foSnapshot(src)
			o["dst"] = foSnapshot(dst)
			// anything else left next to the destination (temp files)
			extra := []string{}
			if names, e2 := os.ReadDir(dstParent); e2 == nil {
				for _, n := range names {
					if n.Name() != "dst" {
						extra = append(extra, n.Name())
					}
				}
			}
			o["dst_siblings"] = extra
			os.RemoveAll(base)
			if !m.Works {
				os.RemoveAll(dstParent)
			}
		}
		emit(map[string]any{"id": c.ID, "modes": modes})
		return nil
	})
}
