package main

import (
	"bytes"
	"encoding/json"
	"fmt"
	"os"
	"path/filepath"
	"strings"

	"github.com/thought-machine/please/src/cli"
	"github.com/thought-machine/please/src/core"
	"github.com/thought-machine/please/src/gc"
	"github.com/thought-machine/please/src/query"
)

// C23 / C25: every TLC-enumerated graph (GraphQueries.tla) is built as a real core.BuildGraph with hidden
// `_x#tag` sub-targets, declared + resolved dependencies and require/provide entries; the real
// query.Deps / query.ReverseDeps / query.SomePath and gc's targetsToRemove are run on it.
// Observations are the printed label sets (as bit masks over node ids) and printed paths.
func init() {
	register("queries", queriesEngine)
	register("gc", gcEngine)
}

type qCase struct {
	ID     int      `json:"id"`
	N      int      `json:"n"`
	Par    []int    `json:"par"`
	Decl   [][]int  `json:"decl"`
	Prov   []int    `json:"prov"`
	Req    []int    `json:"req"`
	Up     bool     `json:"up"`
	Levels []int    `json:"levels"`
	Role   []string `json:"role"`
	Sib    []int    `json:"sib"`
}

// qName renders node i (1-based) as a target name: top-level `t<i>` (or `T<i>`, which sorts before the
// hidden names), hidden sub-target `_t<p>#h<i>` of rule p.
func (c *qCase) qName(i int) string {
	pre := "t"
	if c.Up {
		pre = "T"
	}
	if p := c.Par[i-1]; p != 0 {
		return fmt.Sprintf("_%s%d#h%d", pre, p, i)
	}
	return fmt.Sprintf("%s%d", pre, i)
}

func (c *qCase) label(i int) core.BuildLabel {
	return core.BuildLabel{PackageName: "p", Name: c.qName(i)}
}

// nodeOf parses a printed label back into a node id (0 if unknown).
func nodeOf(s string) int {
	s = strings.TrimSpace(s)
	s = strings.TrimPrefix(s, "//p:")
	var a, b int
	if strings.HasPrefix(s, "_") {
		if i := strings.Index(s, "#h"); i >= 0 {
			if _, err := fmt.Sscanf(s[i+2:], "%d", &b); err == nil {
				return b
			}
		}
		return 0
	}
	if len(s) > 1 {
		if _, err := fmt.Sscanf(s[1:], "%d", &a); err == nil {
			return a
		}
	}
	return 0
}

var sharedState *core.BuildState

// buildQueryGraph builds the graph of a case into a fresh state. decorate is called on every target before it is added.
func buildQueryGraph(c *qCase, decorate func(i int, t *core.BuildTarget)) (*core.BuildState, *core.Package, []*core.BuildTarget, error) {
	// one BuildState for the whole run (each NewBuildState starts a result-forwarding goroutine with an idle
	// cycle-check timer); every case gets a fresh graph
	if sharedState == nil {
		sharedState = core.NewDefaultBuildState()
	}
	state := sharedState
	state.Graph = core.NewGraph()
	graph := state.Graph
	pkg := core.NewPackage("p")
	targets := make([]*core.BuildTarget, c.N+1)
	for i := 1; i <= c.N; i++ {
		targets[i] = core.NewBuildTarget(c.label(i))
		if len(c.Prov) >= i && c.Prov[i-1] != 0 {
			targets[i].AddProvide("l", []core.BuildLabel{c.label(c.Prov[i-1])})
		}
		if len(c.Req) >= i && c.Req[i-1] != 0 {
			targets[i].AddRequire("l")
		}
	}
	for _, e := range c.Decl {
		targets[e[0]].AddDependency(c.label(e[1]))
	}
	for i := 1; i <= c.N; i++ {
		if decorate != nil {
			decorate(i, targets[i])
		}
		graph.AddTarget(targets[i])
		pkg.AddTarget(targets[i])
	}
	graph.AddPackage(pkg)
	for i := 1; i <= c.N; i++ {
		if err := targets[i].ResolveDependencies(graph); err != nil {
			return nil, nil, nil, err
		}
	}
	return state, pkg, targets, nil
}

// stdoutCapture swaps os.Stdout for a scratch file around a call and returns what was printed.
type stdoutCapture struct {
	f   *os.File
	buf []byte
}

func newStdoutCapture() (*stdoutCapture, error) {
	dir := os.Getenv("VERIF_SCRATCH")
	if st, err := os.Stat("/dev/shm"); err == nil && st.IsDir() {
		dir = "/dev/shm"
	}
	f, err := os.CreateTemp(dir, "vh-stdout-*")
	if err != nil {
		return nil, err
	}
	os.Remove(f.Name())
	return &stdoutCapture{f: f, buf: make([]byte, 1<<16)}, nil
}

func (s *stdoutCapture) run(fn func()) string {
	orig := os.Stdout
	os.Stdout = s.f
	func() {
		defer func() { os.Stdout = orig }()
		fn()
	}()
	n, _ := s.f.Seek(0, 1)
	if int(n) > len(s.buf) {
		s.buf = make([]byte, n)
	}
	s.f.ReadAt(s.buf[:n], 0)
	s.f.Truncate(0)
	s.f.Seek(0, 0)
	return string(s.buf[:n])
}

func maskOfLines(out string) (int, int) {
	mask, unknown := 0, 0
	for _, line := range strings.Split(out, "\n") {
		if strings.TrimSpace(line) == "" {
			continue
		}
		if k := nodeOf(line); k > 0 {
			mask |= 1 << (k - 1)
		} else {
			unknown++
		}
	}
	return mask, unknown
}

func pathOf(out string) []int {
	path := []int{}
	if !strings.HasPrefix(out, "Found path:") {
		return path
	}
	for _, line := range strings.Split(out, "\n")[1:] {
		if strings.TrimSpace(line) == "" {
			continue
		}
		path = append(path, nodeOf(line))
	}
	return path
}

func queriesEngine(args []string) error {
	defer flush()
	cli.InitLogging(cli.MinVerbosity)
	cap, err := newStdoutCapture()
	if err != nil {
		return err
	}
	return readCases(args[0], func(raw json.RawMessage) error {
		var c qCase
		if err := json.Unmarshal(raw, &c); err != nil {
			return err
		}
		state, _, _, err := buildQueryGraph(&c, nil)
		if err != nil {
			return err
		}
		unknown := 0
		kids := make([]int, c.N+1)
		for i := 1; i <= c.N; i++ {
			if p := c.Par[i-1]; p != 0 {
				kids[p]++
			}
		}
		hids := []bool{false, true}
		deps := make([][][]int, 2)
		rev := make([][][][]int, 2)
		for h, hid := range hids {
			deps[h] = make([][]int, c.N)
			rev[h] = make([][][]int, c.N)
			for s := 1; s <= c.N; s++ {
				deps[h][s-1] = make([]int, len(c.Levels))
				rev[h][s-1] = make([][]int, len(c.Levels))
				for li, L := range c.Levels {
					var buf bytes.Buffer
					query.Deps(&buf, state, []core.BuildLabel{c.label(s)}, hid, L, false)
					m, u := maskOfLines(buf.String())
					unknown += u
					deps[h][s-1][li] = m
					// revdeps walks the package's target map to find the hidden sub-targets: its order is
					// random, so repeat the query when the order can matter and report every distinct answer
					reps := 1
					if !hid && kids[s] >= 2 {
						reps = 3
					}
					seen := []int{}
					for r := 0; r < reps; r++ {
						out := cap.run(func() { query.ReverseDeps(state, []core.BuildLabel{c.label(s)}, L, hid) })
						m, u := maskOfLines(out)
						unknown += u
						dup := false
						for _, x := range seen {
							dup = dup || x == m
						}
						if !dup {
							seen = append(seen, m)
						}
					}
					rev[h][s-1][li] = seen
				}
			}
		}
		// somepath: every ordered pair, with and without --hidden; then one-to-many and many-to-one
		sp := make([][][][]int, 2)
		spall := make([][][][]int, 2)
		for h, sh := range hids {
			sp[h] = make([][][]int, c.N)
			spall[h] = make([][][]int, c.N)
			for a := 1; a <= c.N; a++ {
				sp[h][a-1] = make([][]int, c.N)
				for b := 1; b <= c.N; b++ {
					if a == b {
						sp[h][a-1][b-1] = []int{}
						continue
					}
					out := cap.run(func() {
						query.SomePath(state.Graph, []core.BuildLabel{c.label(a)}, []core.BuildLabel{c.label(b)}, nil, sh)
					})
					sp[h][a-1][b-1] = pathOf(out)
				}
				others := []core.BuildLabel{}
				for _, t := range state.Graph.AllTargets() { // label order, like `:all`-style expansion sorted
					if t.Label != c.label(a) {
						others = append(others, t.Label)
					}
				}
				spall[h][a-1] = [][]int{{}, {}}
				if len(others) > 0 {
					o1 := cap.run(func() { query.SomePath(state.Graph, others, []core.BuildLabel{c.label(a)}, nil, sh) })
					o2 := cap.run(func() { query.SomePath(state.Graph, []core.BuildLabel{c.label(a)}, others, nil, sh) })
					spall[h][a-1] = [][]int{pathOf(o1), pathOf(o2)}
				}
			}
		}
		emit(map[string]any{"id": c.ID, "deps": deps, "rev": rev, "sp": sp, "spall": spall, "unknown": unknown})
		return nil
	})
}

// gcEngine: for every case, three ways of marking the "keep" targets (kept label / gc.keep entries as the
// CLI passes them / subincludes) x conservative or not. One source file f_i_j per pair {i,j} of targets.
func gcEngine(args []string) error {
	defer flush()
	cli.InitLogging(cli.MinVerbosity)
	return readCases(args[0], func(raw json.RawMessage) error {
		var c qCase
		if err := json.Unmarshal(raw, &c); err != nil {
			return err
		}
		mechs := []string{"label", "named", "subinclude"}
		res := make([][]map[string]any, len(mechs))
		for mi, mech := range mechs {
			res[mi] = make([]map[string]any, 2)
			for ci, conservative := range []bool{false, true} {
				marked := []core.BuildLabel{}
				state, pkg, _, err := buildQueryGraph(&c, func(i int, t *core.BuildTarget) {
					switch c.Role[i-1] {
					case "bin":
						t.IsBinary = true
					case "test":
						t.IsBinary = true
						t.Test = new(core.TestFields)
						t.TestOnly = true
					case "tolib":
						t.TestOnly = true
					case "keep":
						marked = append(marked, t.Label)
						if mech == "label" {
							t.AddLabel("keepme")
						}
					}
					if len(c.Sib) >= i && c.Sib[i-1] != 0 {
						t.AddLabel("gc_sibling:" + c.qName(c.Sib[i-1]))
					}
					for j := 1; j <= c.N; j++ {
						if j != i {
							a, b := i, j
							if a > b {
								a, b = b, a
							}
							t.AddSource(core.FileLabel{File: fmt.Sprintf("f_%d_%d.txt", a, b), Package: "p"})
						}
					}
				})
				if err != nil {
					return err
				}
				var named, keepLabels []core.BuildLabel
				var labels []string
				switch mech {
				case "label":
					labels = []string{"keepme"}
				case "named":
					named, keepLabels = marked, marked
				case "subinclude":
					for _, l := range marked {
						pkg.RegisterSubinclude(l)
					}
				}
				rm, srcs := gc.VerifTargetsToRemove(state.Graph, nil, named, keepLabels, labels, conservative)
				mask, unknown := 0, 0
				for _, l := range rm {
					if k := nodeOf(l.String()); k > 0 {
						mask |= 1 << (k - 1)
					} else {
						unknown++
					}
				}
				pairs := [][]int{}
				for _, s := range srcs {
					var a, b int
					if _, err := fmt.Sscanf(filepath.Base(s), "f_%d_%d.txt", &a, &b); err == nil {
						pairs = append(pairs, []int{a, b})
					} else {
						unknown++
					}
				}
				res[mi][ci] = map[string]any{"removed": mask, "srcs": pairs, "unknown": unknown}
			}
		}
		emit(map[string]any{"id": c.ID, "runs": res})
		return nil
	})
}
