package main

import (
	"encoding/json"
	"fmt"
	"net"
	"os"
	"os/exec"
	"path/filepath"
	"sort"
	"strings"
	"sync"
	"time"

	"github.com/thought-machine/please/src/cache"
	"github.com/thought-machine/please/src/core"
	"github.com/thought-machine/please/src/verifhook"
)

// C12 / C14: drives the real directory cache.
//
//	vh dircache-crash <cases>   every case: Store in a child process that SIGKILLs itself at the n-th hook point
//	                            (every n up to the number of points a full store passes), then Retrieve in a fresh
//	                            cache object and snapshot what was restored
//	vh dircache-child ...       the child: one real Store
//	vh dircache-conc <cases>    concurrent Store/Retrieve of one key from several goroutines
//	vh dircache-clean <cases>   materialised cache directories + one real cleaning pass
func init() {
	register("dircache-crash", dirCacheCrash)
	register("dircache-child", dirCacheChild)
	register("dircache-conc", dirCacheConc)
	register("dircache-clean", dirCacheClean)
	register("dircache-cleanrace", dirCacheCleanRace)
}

// A tree shape is a list of outputs; each output is a file, a relative symlink, or a directory with entries.
type dcEntry struct {
	Name    string    `json:"name"`
	Kind    string    `json:"kind"` // file | link | dir
	Content string    `json:"content,omitempty"`
	Target  string    `json:"target,omitempty"`
	Entries []dcEntry `json:"entries,omitempty"`
}

type dcCase struct {
	ID       int       `json:"id"`
	Outs     []dcEntry `json:"outs"`
	Compress bool      `json:"compress"`
	Stale    int       `json:"stale"`  // crash an earlier store of the same key at this point first (0 = none)
	HadOld   bool      `json:"hadOld"` // a complete older entry (different contents) exists before the store
	Threads  int       `json:"threads"`
	Fault    string    `json:"fault"` // "": none | "vanished": the last listed output is removed before the store | "socket": a unix socket sits in the last directory output
}

var dcKey = []byte("12345678901234567890")

func dcMaterialise(dir string, es []dcEntry, salt string) error {
	for _, e := range es {
		p := filepath.Join(dir, e.Name)
		switch e.Kind {
		case "file":
			if err := os.MkdirAll(filepath.Dir(p), 0775); err != nil {
				return err
			}
			mode := os.FileMode(0644)
			if strings.HasSuffix(e.Name, "x") {
				mode = 0755
			}
			if err := os.WriteFile(p, []byte(e.Content+salt), mode); err != nil {
				return err
			}
		case "link":
			if err := os.Symlink(e.Target, p); err != nil {
				return err
			}
		case "dir":
			if err := os.MkdirAll(p, 0775); err != nil {
				return err
			}
			if err := dcMaterialise(p, e.Entries, salt); err != nil {
				return err
			}
		}
	}
	return nil
}

// dcSnapshot renders a tree as sorted "path kind payload" lines.
func dcSnapshot(root string, outs []dcEntry) []string {
	res := []string{}
	for _, o := range outs {
		top := filepath.Join(root, o.Name)
		filepath.Walk(top, func(p string, info os.FileInfo, err error) error {
			if err != nil {
				res = append(res, fmt.Sprintf("%s MISSING", strings.TrimPrefix(p, root+"/")))
				return nil
			}
			rel := strings.TrimPrefix(p, root+"/")
			switch {
			case info.Mode()&os.ModeSymlink != 0:
				t, _ := os.Readlink(p)
				res = append(res, fmt.Sprintf("%s link %s", rel, t))
			case info.IsDir():
				res = append(res, fmt.Sprintf("%s dir", rel))
			default:
				b, _ := os.ReadFile(p)
				x := ""
				if info.Mode()&0100 != 0 {
					x = " x"
				}
				res = append(res, fmt.Sprintf("%s file %s%s", rel, string(b), x))
			}
			return nil
		})
	}
	sort.Strings(res)
	return res
}

func dcTarget() *core.BuildTarget {
	return core.NewBuildTarget(core.BuildLabel{PackageName: "pkg", Name: "tgt"})
}

func dcNames(outs []dcEntry) []string {
	n := []string{}
	for _, o := range outs {
		n = append(n, o.Name)
	}
	return n
}

// dcSetup creates <base>/repo with the outputs materialised in plz-out/gen/pkg and chdirs there.
func dcSetup(base string, c *dcCase, salt string) (string, error) {
	repo := filepath.Join(base, "repo")
	out := filepath.Join(repo, "plz-out/gen/pkg")
	os.RemoveAll(out)
	if err := os.MkdirAll(out, 0775); err != nil {
		return "", err
	}
	if err := dcMaterialise(out, c.Outs, salt); err != nil {
		return "", err
	}
	core.RepoRoot = repo
	return repo, os.Chdir(repo)
}

func dirCacheChild(args []string) error {
	var c dcCase
	if err := json.Unmarshal([]byte(args[0]), &c); err != nil {
		return err
	}
	base, salt := args[1], args[2]
	if _, err := dcSetup(base, &c, salt); err != nil {
		return err
	}
	out := filepath.Join(base, "repo/plz-out/gen/pkg")
	switch c.Fault {
	case "vanished":
		os.RemoveAll(filepath.Join(out, c.Outs[len(c.Outs)-1].Name))
	case "socket":
		for i := len(c.Outs) - 1; i >= 0; i-- {
			if c.Outs[i].Kind == "dir" {
				if l, err := net.Listen("unix", filepath.Join(out, c.Outs[i].Name, "zsock")); err == nil {
					defer l.Close()
				}
				break
			}
		}
	}
	dc := cache.VerifNewDirCache(filepath.Join(base, "cache"), c.Compress)
	dc.Store(dcTarget(), dcKey, dcNames(c.Outs))
	return nil
}

func dcRunChild(c *dcCase, base, salt string, crashAt int, pointsFile string) (killed bool, err error) {
	js, _ := json.Marshal(c)
	cmd := exec.Command(os.Args[0], "dircache-child", string(js), base, salt)
	cmd.Env = append(os.Environ(), "VERIF_CRASH_NAME=")
	if crashAt > 0 {
		cmd.Env = append(cmd.Env, fmt.Sprintf("VERIF_CRASH_AT=%d", crashAt))
	}
	if pointsFile != "" {
		cmd.Env = append(cmd.Env, "VERIF_POINTS="+pointsFile)
	}
	out, err := cmd.CombinedOutput()
	if err != nil {
		if ee, ok := err.(*exec.ExitError); ok && ee.ProcessState != nil && !ee.ProcessState.Exited() {
			return true, nil // killed by the signal
		}
		return false, fmt.Errorf("child failed: %v: %s", err, out)
	}
	return false, nil
}

func dirCacheCrash(args []string) error {
	defer flush()
	scratch := os.Getenv("VERIF_SCRATCH")
	return readCases(args[0], func(raw json.RawMessage) error {
		var c dcCase
		if err := json.Unmarshal(raw, &c); err != nil {
			return err
		}
		base := filepath.Join(scratch, fmt.Sprintf("dc%d", c.ID))
		defer os.RemoveAll(base)
		os.MkdirAll(base, 0775)
		// full store once to learn the sequence of points
		pf := filepath.Join(base, "points")
		if _, err := dcRunChild(&c, base, "", 0, pf); err != nil {
			return err
		}
		pb, _ := os.ReadFile(pf)
		points := strings.Fields(string(pb))
		// the reference tree is what a complete store+retrieve restores (round trip fidelity)
		wantDir := filepath.Join(base, "wantref")
		os.MkdirAll(wantDir, 0775)
		if err := dcMaterialise(wantDir, c.Outs, ""); err != nil {
			return err
		}
		want := dcSnapshot(wantDir, c.Outs)
		if c.Fault != "" {
			points = nil // store-time faults are observed without a crash
		}
		oldDir := filepath.Join(base, "oldref")
		os.MkdirAll(oldDir, 0775)
		if err := dcMaterialise(oldDir, c.Outs, "OLD"); err != nil {
			return err
		}
		wantOld := dcSnapshot(oldDir, c.Outs)
		runs := []map[string]any{}
		for n := 0; n <= len(points); n++ { // n = 0: no crash
			os.RemoveAll(filepath.Join(base, "cache"))
			if c.HadOld {
				old := c
				old.Stale, old.HadOld = 0, false
				if _, err := dcRunChild(&old, base, "OLD", 0, ""); err != nil {
					return err
				}
			}
			if c.Stale > 0 {
				if _, err := dcRunChild(&c, base, "", c.Stale, ""); err != nil {
					return err
				}
			}
			killed, err := dcRunChild(&c, base, "", n, "")
			if err != nil {
				return err
			}
			// a fresh process image of the cache: new object, outputs removed
			repo, err := dcSetup(base, &c, "")
			if err != nil {
				return err
			}
			outDir := filepath.Join(repo, "plz-out/gen/pkg")
			os.RemoveAll(outDir)
			os.MkdirAll(outDir, 0775)
			dc := cache.VerifNewDirCache(filepath.Join(base, "cache"), c.Compress)
			hit := dc.Retrieve(dcTarget(), dcKey, dcNames(c.Outs))
			got := dcSnapshot(outDir, c.Outs)
			point := "none"
			if n > 0 {
				point = points[n-1]
			}
			runs = append(runs, map[string]any{"crashAt": n, "point": point, "killed": killed, "hit": hit, "restored": got})
		}
		// a key that was never stored
		dc := cache.VerifNewDirCache(filepath.Join(base, "cache"), c.Compress)
		never := dc.Retrieve(dcTarget(), []byte("09876543210987654321"), dcNames(c.Outs))
		emit(map[string]any{"id": c.ID, "points": points, "want": want, "wantOld": wantOld, "runs": runs, "neverStoredHit": never})
		return nil
	})
}

func dirCacheConc(args []string) error {
	defer flush()
	scratch := os.Getenv("VERIF_SCRATCH")
	return readCases(args[0], func(raw json.RawMessage) error {
		var c dcCase
		if err := json.Unmarshal(raw, &c); err != nil {
			return err
		}
		base := filepath.Join(scratch, fmt.Sprintf("dcc%d", c.ID))
		defer os.RemoveAll(base)
		repo, err := dcSetup(base, &c, "")
		if err != nil {
			return err
		}
		want := dcSnapshot(filepath.Join(repo, "plz-out/gen/pkg"), c.Outs)
		dc := cache.VerifNewDirCache(filepath.Join(base, "cache"), c.Compress)
		// One storer re-stores the entry in a loop (as a second checkout sharing the cache directory would) while a
		// retriever restores it in a loop. The retriever's target is the same label marked binary, so it restores into
		// plz-out/bin/pkg and never touches the files the storer links from; the cache path depends on the label only.
		var wg sync.WaitGroup
		bad := []map[string]any{}
		hits := 0
		stop := time.Now().Add(time.Duration(c.Threads) * 40 * time.Millisecond)
		wg.Add(2)
		go func() {
			defer wg.Done()
			st := dcTarget()
			for time.Now().Before(stop) {
				dc.Store(st, dcKey, dcNames(c.Outs))
			}
		}()
		go func() {
			defer wg.Done()
			rt := dcTarget()
			rt.IsBinary = true
			binDir := filepath.Join(repo, "plz-out/bin/pkg")
			for time.Now().Before(stop) {
				os.RemoveAll(binDir)
				os.MkdirAll(binDir, 0775)
				if dc.Retrieve(rt, dcKey, dcNames(c.Outs)) {
					hits++
					got := dcSnapshot(binDir, c.Outs)
					if strings.Join(got, "\n") != strings.Join(want, "\n") && len(bad) < 3 {
						bad = append(bad, map[string]any{"restored": got})
					}
				}
			}
		}()
		wg.Wait()
		emit(map[string]any{"id": c.ID, "want": want, "hits": hits, "bad": bad})
		return nil
	})
}

// ---- C14

type cleanEntry struct {
	Size   int  `json:"size"`
	Atime  int  `json:"atime"`
	Marked bool `json:"marked"`
}
type cleanCase struct {
	ID       int          `json:"id"`
	Entries  []cleanEntry `json:"entries"`
	High     int          `json:"high"`
	Low      int          `json:"low"`
	Compress bool         `json:"compress"`
	InProg   bool         `json:"inprog"` // marked entries exist under their in-progress name
}

const cleanUnit = 1 << 20

func dirCacheClean(args []string) error {
	defer flush()
	scratch := os.Getenv("VERIF_SCRATCH")
	return readCases(args[0], func(raw json.RawMessage) error {
		var c cleanCase
		if err := json.Unmarshal(raw, &c); err != nil {
			return err
		}
		base := filepath.Join(scratch, fmt.Sprintf("cl%d", c.ID))
		defer os.RemoveAll(base)
		dir := filepath.Join(base, "cache")
		dc := cache.VerifNewDirCache(dir, c.Compress)
		tgt := dcTarget()
		paths := make([]string, len(c.Entries))
		now := time.Now()
		for i, e := range c.Entries {
			key := []byte(fmt.Sprintf("%020d", i+1))
			p := dc.Path(tgt, key)
			if c.InProg && e.Marked {
				p = dc.TmpPath(tgt, key)
			}
			paths[i] = p
			file := p
			if !c.Compress {
				if err := os.MkdirAll(p, 0775); err != nil {
					return err
				}
				file = filepath.Join(p, "artifact")
			} else if err := os.MkdirAll(filepath.Dir(p), 0775); err != nil {
				return err
			}
			f, err := os.Create(file)
			if err != nil {
				return err
			}
			f.Truncate(int64(e.Size) * cleanUnit) // sparse
			f.Close()
			at := now.Add(-time.Duration(3-e.Atime) * time.Hour)
			os.Chtimes(file, at, at)
			os.Chtimes(p, at, at)
			if e.Marked {
				// what Store/Retrieve do: mark the final path with the size
				dc.Mark(dc.Path(tgt, key), uint64(e.Size)*cleanUnit)
			}
		}
		// real water marks sit half a unit below the model's integer marks so that directory overhead cannot flip a comparison
		total := dc.Clean(uint64(c.High)*cleanUnit-cleanUnit/2, uint64(c.Low)*cleanUnit-cleanUnit/2)
		state := make([]string, len(paths))
		for i, p := range paths {
			file := p
			if !c.Compress {
				file = filepath.Join(p, "artifact")
			}
			_, e1 := os.Lstat(p)
			_, e2 := os.Lstat(file)
			switch {
			case e1 == nil && e2 == nil:
				state[i] = "whole"
			case e1 != nil && e2 != nil:
				state[i] = "gone"
			default:
				state[i] = "partial"
			}
		}
		left, _ := filepath.Glob(filepath.Join(filepath.Dir(paths[0]), "*"))
		emit(map[string]any{"id": c.ID, "state": state, "returnedTotalUnits": float64(total) / cleanUnit, "left": len(left)})
		return nil
	})
}


// dirCacheCleanRace: the cleaner is stopped by a gate at its k-th eviction step; the harness then marks one entry (as a
// Store / Retrieve by this process would) and lets the cleaner go on. An entry that was still there when it was marked
// must survive the pass.
type cleanRaceCase struct {
	cleanCase
	GateAt int `json:"gateAt"`
	Who    int `json:"who"` // 1-based index of the entry marked during the pass
}

func dirCacheCleanRace(args []string) error {
	defer flush()
	scratch := os.Getenv("VERIF_SCRATCH")
	return readCases(args[0], func(raw json.RawMessage) error {
		var c cleanRaceCase
		if err := json.Unmarshal(raw, &c); err != nil {
			return err
		}
		base := filepath.Join(scratch, fmt.Sprintf("clr%d", c.ID))
		defer os.RemoveAll(base)
		dc := cache.VerifNewDirCache(filepath.Join(base, "cache"), c.Compress)
		tgt := dcTarget()
		paths := make([]string, len(c.Entries))
		now := time.Now()
		exists := func(i int) bool { _, err := os.Lstat(paths[i]); return err == nil }
		for i, e := range c.Entries {
			key := []byte(fmt.Sprintf("%020d", i+1))
			p := dc.Path(tgt, key)
			paths[i] = p
			file := p
			if !c.Compress {
				os.MkdirAll(p, 0775)
				file = filepath.Join(p, "artifact")
			} else {
				os.MkdirAll(filepath.Dir(p), 0775)
			}
			f, err := os.Create(file)
			if err != nil {
				return err
			}
			f.Truncate(int64(e.Size) * cleanUnit)
			f.Close()
			at := now.Add(-time.Duration(3-e.Atime) * time.Hour)
			os.Chtimes(file, at, at)
			os.Chtimes(p, at, at)
			if e.Marked {
				dc.Mark(p, uint64(e.Size)*cleanUnit)
			}
		}
		reached, release := verifhook.SetGate("dircache.clean.next", c.GateAt)
		done := make(chan struct{})
		go func() {
			dc.Clean(uint64(c.High)*cleanUnit-cleanUnit/2, uint64(c.Low)*cleanUnit-cleanUnit/2)
			close(done)
		}()
		gated, presentAtMark := false, false
		select {
		case <-reached:
			gated = true
			presentAtMark = exists(c.Who - 1)
			dc.Mark(paths[c.Who-1], uint64(c.Entries[c.Who-1].Size)*cleanUnit)
			release()
			<-done
		case <-done:
			verifhook.SetGate("", 0) // the pass had fewer steps than the gate position
		}
		emit(map[string]any{"id": c.ID, "gated": gated, "presentAtMark": presentAtMark, "presentAtEnd": exists(c.Who - 1)})
		return nil
	})
}
