package main

import (
	"encoding/json"
	"fmt"
	"os"
	"path/filepath"
	"strconv"
	"strings"
	"sync"
	"time"

	"github.com/thought-machine/please/src/core"
	"github.com/thought-machine/please/src/process"
)

// C30: runs each TLC-enumerated behaviour combination as a real shell command through the real
// process.Executor with a timeout, and reports when it returned and which processes of the action's
// process group were still alive (non-zombie) afterwards.
func init() { register("process", processEngine) }

type procCase struct {
	ID                 int  `json:"id"`
	LeaderIgnoresTerm  bool `json:"leaderIgnoresTerm"`
	FinishesAtDeadline bool `json:"finishesAtDeadline"`
	Child              struct {
		Kind        string `json:"kind"`
		IgnoresTerm bool   `json:"ignoresTerm"`
		HoldsPipe   bool   `json:"holdsPipe"`
	} `json:"child"`
	TimeoutMs int `json:"timeoutMs"`
}

// groupMembers lists non-zombie processes whose process group is pgid.
func groupMembers(pgid int) []string {
	res := []string{}
	ents, _ := os.ReadDir("/proc")
	for _, e := range ents {
		pid, err := strconv.Atoi(e.Name())
		if err != nil {
			continue
		}
		b, err := os.ReadFile(filepath.Join("/proc", e.Name(), "stat"))
		if err != nil {
			continue
		}
		s := string(b)
		i := strings.LastIndex(s, ")")
		if i < 0 {
			continue
		}
		f := strings.Fields(s[i+1:])
		if len(f) < 3 {
			continue
		}
		pg, _ := strconv.Atoi(f[2])
		if pg == pgid && f[0] != "Z" {
			cmdline, _ := os.ReadFile(filepath.Join("/proc", e.Name(), "cmdline"))
			res = append(res, fmt.Sprintf("%d:%s:%s", pid, f[0], strings.ReplaceAll(string(cmdline), "\x00", " ")))
		}
	}
	return res
}

func processEngine(args []string) error {
	defer flush()
	scratch := os.Getenv("VERIF_SCRATCH")
	var mu sync.Mutex
	var wg sync.WaitGroup
	sem := make(chan struct{}, 8)
	err := readCases(args[0], func(raw json.RawMessage) error {
		var c procCase
		if err := json.Unmarshal(raw, &c); err != nil {
			return err
		}
		wg.Add(1)
		sem <- struct{}{}
		go func() {
			defer wg.Done()
			defer func() { <-sem }()
			dir := filepath.Join(scratch, fmt.Sprintf("pr%d", c.ID))
			os.MkdirAll(dir, 0775)
			defer os.RemoveAll(dir)
			pidfile := filepath.Join(dir, "pgid")
			// the command: record the group id; optional traps; optional child; then sleep
			var b strings.Builder
			fmt.Fprintf(&b, "echo $$ > %s; ", pidfile)
			long := "sleep 30"
			childCmd := long
			if c.Child.IgnoresTerm {
				childCmd = "bash -c \"trap '' TERM; sleep 30\""
			}
			redirect := ""
			if !c.Child.HoldsPipe {
				redirect = " >/dev/null 2>&1"
			}
			switch c.Child.Kind {
			case "bg":
				fmt.Fprintf(&b, "%s%s & ", childCmd, redirect)
			}
			if c.LeaderIgnoresTerm {
				b.WriteString("trap '' TERM; ")
			}
			own := long
			if c.FinishesAtDeadline {
				own = fmt.Sprintf("sleep %.3f", float64(c.TimeoutMs)/1000)
			}
			if c.Child.Kind == "fg" {
				// the foreground child does the waiting; the leader waits for it
				if c.FinishesAtDeadline {
					childCmd = strings.Replace(childCmd, "sleep 30", own, 1)
				}
				fmt.Fprintf(&b, "%s%s; true", childCmd, redirect)
			} else {
				fmt.Fprintf(&b, "%s; true", own)
			}
			target := core.NewBuildTarget(core.BuildLabel{PackageName: "pkg", Name: fmt.Sprintf("t%d", c.ID)})
			ex := process.New()
			t0 := time.Now()
			_, _, err := ex.ExecWithTimeoutShell(target, dir, []string{"PATH=/usr/local/bin:/usr/bin:/bin"},
				time.Duration(c.TimeoutMs)*time.Millisecond, false, false, process.NewSandboxConfig(false, false), b.String())
			elapsed := time.Since(t0)
			time.Sleep(150 * time.Millisecond)
			pg := 0
			if pb, e := os.ReadFile(pidfile); e == nil {
				pg, _ = strconv.Atoi(strings.TrimSpace(string(pb)))
			}
			alive := []string{}
			if pg > 0 {
				alive = groupMembers(pg)
				// clean up whatever is left so cases do not leak processes
				if len(alive) > 0 {
					syscallKillGroup(pg)
				}
			}
			errs := ""
			if err != nil {
				errs = err.Error()
			}
			mu.Lock()
			emit(map[string]any{"id": c.ID, "elapsedMs": elapsed.Milliseconds(), "err": errs, "pgid": pg, "alive": alive, "cmd": b.String()})
			mu.Unlock()
		}()
		return nil
	})
	wg.Wait()
	return err
}
