// vh is the conformance harness binary: each subcommand steps TLC-generated cases through the real
// code of thought-machine/please and prints one JSON observation per case.
package main

import (
	"bufio"
	"encoding/json"
	"fmt"
	"os"
	"sort"
)

type engine func(args []string) error

var engines = map[string]engine{}

func register(name string, e engine) { engines[name] = e }

func main() {
	if len(os.Args) < 2 {
		names := []string{}
		for n := range engines {
			names = append(names, n)
		}
		sort.Strings(names)
		fmt.Fprintln(os.Stderr, "usage: vh <engine> <cases.ndjson> [args]; engines:", names)
		os.Exit(2)
	}
	e, ok := engines[os.Args[1]]
	if !ok {
		fmt.Fprintln(os.Stderr, "unknown engine", os.Args[1])
		os.Exit(2)
	}
	if err := e(os.Args[2:]); err != nil {
		fmt.Fprintln(os.Stderr, "vh:", err)
		os.Exit(2)
	}
}

// readCases streams ndjson records from the file into fn.
func readCases(path string, fn func(raw json.RawMessage) error) error {
	f, err := os.Open(path)
	if err != nil {
		return err
	}
	defer f.Close()
	sc := bufio.NewScanner(f)
	sc.Buffer(make([]byte, 1<<20), 1<<28)
	for sc.Scan() {
		line := sc.Bytes()
		if len(line) == 0 {
			continue
		}
		cp := make([]byte, len(line))
		copy(cp, line)
		if err := fn(cp); err != nil {
			return err
		}
	}
	return sc.Err()
}

var out = bufio.NewWriterSize(os.Stdout, 1<<20)

func emit(v any) {
	b, err := json.Marshal(v)
	if err != nil {
		panic(err)
	}
	out.Write(b)
	out.WriteByte('\n')
}

func flush() { out.Flush() }
