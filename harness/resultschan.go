package main

import (
	"encoding/json"
	"fmt"
	"time"

	"github.com/thought-machine/please/src/core"
)

// C05 (end of an invocation): spec/ResultsChan.tla's orders of "the display fetches the channel" and "the build closes it",
// with results still in flight at the close, driven through the real BuildState (Results / CloseResults / logResult and
// its forwarder goroutine). Observed: does the display's fetch return, does the channel get closed for it.
func init() { register("resultschan", resultsChanEngine) }

type rcCase struct {
	ID    int `json:"id"`
	Order []struct {
		Ev       string `json:"ev"`
		Inflight int    `json:"inflight"`
	} `json:"order"`
}

func resultsChanEngine(args []string) error {
	defer flush()
	return readCases(args[0], func(raw json.RawMessage) error {
		var c rcCase
		if err := json.Unmarshal(raw, &c); err != nil {
			return err
		}
		state := core.NewDefaultBuildState()
		state.Results() // as runPlease does before it starts the display goroutine
		target := core.NewBuildTarget(core.BuildLabel{PackageName: "p", Name: fmt.Sprintf("t%d", c.ID)})
		late := 0
		for _, e := range c.Order {
			if e.Ev == "close" {
				late = e.Inflight
			}
		}
		fetched := make(chan (<-chan *core.BuildResult), 1)
		fetch := func() { go func() { fetched <- state.Results() }() }
		var ch <-chan *core.BuildResult
		wait := func() bool {
			select {
			case ch = <-fetched:
				return true
			case <-time.After(3 * time.Second):
				return false
			}
		}
		obs := map[string]any{"id": c.ID, "fetchReturned": true, "closedForDisplay": true}
		closeAndLog := func() {
			state.CloseResults()
			for i := 0; i < late; i++ { // results that were still in flight when the channel was closed
				state.LogBuildResult(target, core.TargetBuilding, "late")
			}
			time.Sleep(20 * time.Millisecond) // let the forwarder get to them
		}
		if c.Order[0].Ev == "fetch" {
			fetch()
			obs["fetchReturned"] = wait()
			closeAndLog()
		} else {
			closeAndLog()
			fetch()
			obs["fetchReturned"] = wait()
		}
		if ch != nil {
			done := make(chan bool, 1)
			go func() {
				for range ch {
				}
				done <- true
			}()
			select {
			case <-done:
			case <-time.After(3 * time.Second):
				obs["closedForDisplay"] = false
			}
		} else {
			obs["closedForDisplay"] = false
		}
		// and the mutex is free afterwards (anything else that needs it, e.g. a second fetch, goes through)
		fetch()
		obs["mutexFreeAfterwards"] = wait()
		emit(obs)
		return nil
	})
}
