package main

import (
	"encoding/hex"
	"encoding/json"
	"fmt"
	"io"
	"net"
	"net/http"
	"net/http/httptest"
	"os"
	"path/filepath"
	"strings"
	"sync"
	"syscall"
	"time"

	"github.com/thought-machine/please/src/cache"
	"github.com/thought-machine/please/src/core"
	"github.com/thought-machine/please/src/verifhook"
)

// C13: drives the real HTTP cache (against an in-process server that commits a body only when the request ended
// cleanly) and the real command cache (with store / retrieve commands of the documented atomic form), injecting the
// fault each TLC-enumerated scenario names, and reports what was committed and what a later retrieve restored.
func init() { register("streamcache", streamCacheEngine) }

type scCase struct {
	ID          int    `json:"id"`
	Kind        string `json:"kind"`
	Files       int    `json:"files"`
	ReadFaultAt int    `json:"readFaultAt"`
	SendFaultAt int    `json:"sendFaultAt"`
	GetFaultAt  int    `json:"getFaultAt"`
	GetSilent   bool   `json:"getSilent"`
	Stale       bool   `json:"stale"` // the previous version's outputs are still in place when the cache is asked
	StaleLink   bool   `json:"staleLink"`
	StaleStyle  string `json:"staleStyle"` // with staleLink: symlink | hardlink (the previous version's first output is a link to a file elsewhere)
	FaultStyle  string `json:"faultStyle"` // hook | missing   (how the read fault is produced)
	Shape       string `json:"shape"`      // flat | dir
}

type scServer struct {
	mu        sync.Mutex
	store     map[string][]byte
	abortPut  int // abort the connection after reading this many bytes of a PUT body (0 = never)
	truncGet  int // send only this many bytes of a GET body, then drop the connection (0 = never)
	silentGet bool // ... but as a complete, shorter response (clean end)
	slowPut   time.Duration // wait this long before reading a PUT body
	putClean  int
	putBroken int
}

func (s *scServer) ServeHTTP(w http.ResponseWriter, r *http.Request) {
	key := strings.TrimPrefix(r.URL.Path, "/")
	switch r.Method {
	case http.MethodPut:
		var body []byte
		var err error
		if s.slowPut > 0 {
			time.Sleep(s.slowPut)
		}
		if s.abortPut > 0 {
			body, err = io.ReadAll(io.LimitReader(r.Body, int64(s.abortPut)))
			if err == nil {
				// drop the connection mid-request
				if hj, ok := w.(http.Hijacker); ok {
					c, _, _ := hj.Hijack()
					c.(*net.TCPConn).SetLinger(0)
					c.Close()
				}
				s.mu.Lock()
				s.putBroken++
				s.mu.Unlock()
				return
			}
		} else {
			body, err = io.ReadAll(r.Body)
		}
		s.mu.Lock()
		defer s.mu.Unlock()
		if err != nil { // the request did not end cleanly: commit nothing
			s.putBroken++
			w.WriteHeader(http.StatusBadRequest)
			return
		}
		s.putClean++
		s.store[key] = body
		w.WriteHeader(http.StatusOK)
	case http.MethodGet:
		s.mu.Lock()
		b, ok := s.store[key]
		s.mu.Unlock()
		if !ok {
			w.WriteHeader(http.StatusNotFound)
			return
		}
		if s.truncGet > 0 && s.truncGet < len(b) && s.silentGet {
			w.WriteHeader(http.StatusOK)
			w.Write(b[:s.truncGet])
			return
		}
		if s.truncGet > 0 && s.truncGet < len(b) {
			w.Header().Set("Content-Length", fmt.Sprint(len(b)))
			w.WriteHeader(http.StatusOK)
			w.Write(b[:s.truncGet])
			if f, ok := w.(http.Flusher); ok {
				f.Flush()
			}
			if hj, ok := w.(http.Hijacker); ok {
				c, _, _ := hj.Hijack()
				c.Close()
			}
			return
		}
		w.WriteHeader(http.StatusOK)
		w.Write(b)
	}
}

func scFileName(shape string, i int) string {
	if shape == "dir" && i > 1 {
		return fmt.Sprintf("d/f%d", i)
	}
	return fmt.Sprintf("f%d", i)
}

func streamCacheEngine(args []string) error {
	defer flush()
	scratch := os.Getenv("VERIF_SCRATCH")
	return readCases(args[0], func(raw json.RawMessage) error {
		var c scCase
		if err := json.Unmarshal(raw, &c); err != nil {
			return err
		}
		base := filepath.Join(scratch, fmt.Sprintf("sc%d", c.ID))
		defer os.RemoveAll(base)
		repo := filepath.Join(base, "repo")
		outDir := filepath.Join(repo, "plz-out/gen/pkg")
		if err := os.MkdirAll(outDir, 0775); err != nil {
			return err
		}
		core.RepoRoot = repo
		if err := os.Chdir(repo); err != nil {
			return err
		}
		// outputs: in shape "dir" files 2.. live in one directory output d
		outs := []string{}
		want := []string{}
		sizes := []int{}
		for i := 1; i <= c.Files; i++ {
			name := scFileName(c.Shape, i)
			p := filepath.Join(outDir, name)
			os.MkdirAll(filepath.Dir(p), 0775)
			content := strings.Repeat(fmt.Sprintf("file-%d-", i), 300*i)

			os.WriteFile(p, []byte(content), 0644)
			want = append(want, fmt.Sprintf("%s %d", name, len(content)))
			sizes = append(sizes, len(content))
			top := strings.SplitN(name, "/", 2)[0]
			if len(outs) == 0 || outs[len(outs)-1] != top {
				outs = append(outs, top)
			}
		}
		state := core.NewDefaultBuildState()
		state.Config.Cache.Dir = ""
		state.Config.Cache.Workers = 0
		state.Config.Cache.HTTPRetry = 0
		srv := &scServer{store: map[string][]byte{}}
		var ts *httptest.Server
		cmdDir := filepath.Join(base, "cmdstore")
		os.MkdirAll(cmdDir, 0775)
		if c.Kind == "http" {
			ts = httptest.NewServer(srv)
			defer ts.Close()
			state.Config.Cache.HTTPURL.UnmarshalFlag(ts.URL)
			state.Config.Cache.HTTPWriteable = true
		} else {
			state.Config.Cache.StoreCommand = fmt.Sprintf("cat > %s/$CACHE_KEY.tmp && mv %s/$CACHE_KEY.tmp %s/$CACHE_KEY", cmdDir, cmdDir, cmdDir)
			state.Config.Cache.RetrieveCommand = fmt.Sprintf("cat %s/$CACHE_KEY", cmdDir)
		}
		target := core.NewBuildTarget(core.BuildLabel{PackageName: "pkg", Name: "tgt"})
		key := []byte("12345678901234567890")
		// ---- store with the scenario's fault
		if c.ReadFaultAt > 0 {
			if c.FaultStyle == "missing" {
				os.Remove(filepath.Join(outDir, scFileName(c.Shape, c.ReadFaultAt)))
			} else if c.FaultStyle == "vanish" {
				// the file disappears AFTER its directory was listed: a FIFO that sorts just before it is the rendezvous --
				// the archiver blocks opening it, the file is removed, the FIFO's writer closes, the archiver goes on
				victim := filepath.Join(outDir, scFileName(c.Shape, c.ReadFaultAt))
				fifo := filepath.Join(filepath.Dir(victim), fmt.Sprintf("f%dz", c.ReadFaultAt-1))
				if err := syscall.Mkfifo(fifo, 0644); err != nil {
					return err
				}
				go func() {
					w, err := os.OpenFile(fifo, os.O_WRONLY, 0) // returns once the archiver has opened the FIFO for reading
					if err == nil {
						os.Remove(victim)
						w.Close()
					}
				}()
			} else {
				// the n-th call of the tar producer's per-entry step; in shape "dir" the directory itself is one call
				n := c.ReadFaultAt
				if c.Shape == "dir" && c.ReadFaultAt > 1 {
					n++
				}
				verifhook.SetFault("cache.storeFile", n)
			}
		}
		if c.SendFaultAt > 0 {
			if c.Kind == "http" {
				srv.abortPut = 64 * c.SendFaultAt
			} else {
				// the store command dies after reading part of its input
				state.Config.Cache.StoreCommand = fmt.Sprintf("head -c %d > %s/$CACHE_KEY.tmp; exit 1", 512*c.SendFaultAt, cmdDir)
			}
		}
		ca := cache.NewCache(state)
		ca.Store(target, key, outs)
		verifhook.SetFault("", 0)
		committed := false
		if c.Kind == "http" {
			_, committed = srv.store[hex.EncodeToString(key)]
		} else {
			_, err := os.Stat(filepath.Join(cmdDir, hex.EncodeToString(key)))
			committed = err == nil
		}
		// ---- retrieve in a fresh cache object: with the outputs gone, or (as the build step does) over the previous
		// version's outputs -- read-only files of other content under the same names and, inside a directory output, an
		// entry only the previous version had
		os.RemoveAll(outDir)
		os.MkdirAll(outDir, 0775)
		if c.Stale {
			for i := 1; i <= c.Files; i++ {
				p := filepath.Join(outDir, scFileName(c.Shape, i))
				os.MkdirAll(filepath.Dir(p), 0775)
				os.WriteFile(p, []byte(fmt.Sprintf("previous version of file %d", i)), 0444)
			}
			if c.Shape == "dir" {
				os.WriteFile(filepath.Join(outDir, "d", "only-in-previous-version"), []byte("stale"), 0444)
			}
			if c.StaleLink {
				os.WriteFile(filepath.Join(base, "victim"), []byte("victim"), 0644)
				os.Remove(filepath.Join(outDir, "f1"))
				if c.StaleStyle == "hardlink" {
					os.Link(filepath.Join(base, "victim"), filepath.Join(outDir, "f1"))
				} else {
					os.Symlink(filepath.Join(base, "victim"), filepath.Join(outDir, "f1"))
				}
			}
		}
		if c.GetFaultAt > 0 {
			if c.Kind == "http" {
				srv.truncGet = 40 * c.GetFaultAt
				srv.silentGet = c.GetSilent
			} else if c.GetSilent {
				// the retrieve command prints the archive only up to an entry boundary and exits 0
				off := 0
				for i := 0; i < c.GetFaultAt-1 && i < len(sizes); i++ {
					off += 512 + (sizes[i]+511)/512*512
				}
				state.Config.Cache.RetrieveCommand = fmt.Sprintf("head -c %d %s/$CACHE_KEY", off, cmdDir)
			} else {
				// the retrieve command fails partway: it prints the first entries and exits non-zero
				off := 0
				for i := 0; i < c.GetFaultAt && i < len(sizes); i++ {
					off += 512 + (sizes[i]+511)/512*512
				}
				state.Config.Cache.RetrieveCommand = fmt.Sprintf("head -c %d %s/$CACHE_KEY; exit 1", off-256, cmdDir)
			}
		}
		cb := cache.NewCache(state)
		hit := cb.Retrieve(target, key, outs)
		got := []string{}
		filepath.Walk(outDir, func(p string, info os.FileInfo, err error) error {
			if err == nil && !info.IsDir() {
				rel, _ := filepath.Rel(outDir, p)
				if info.Mode()&os.ModeSymlink != 0 {
					got = append(got, fmt.Sprintf("%s symlink", rel))
				} else {
					got = append(got, fmt.Sprintf("%s %d", rel, info.Size()))
				}
			}
			return nil
		})
		victim := ""
		if b, err := os.ReadFile(filepath.Join(base, "victim")); err == nil {
			victim = string(b)
			if len(victim) > 20 {
				victim = victim[:20]
			}
		}
		emit(map[string]any{"id": c.ID, "committed": committed, "hit": hit, "restored": got, "want": want, "victim": victim})
		return nil
	})
}
