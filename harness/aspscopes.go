package main

import (
	"encoding/json"
	"fmt"
	"os"
	"path/filepath"
	"sort"
	"strings"
	"sync"

	"github.com/thought-machine/please/src/core"
	"github.com/thought-machine/please/src/format"
)

// Family "aspscopes": C17 (package isolation through a shared subinclude) and C38 (plz fmt keeps meaning).
// Both engines take source text rendered by lib/engines/aspscopes.py from TLC-generated cases and return
// raw observations (what the real interpreter / the real formatter produced); verdicts are taken in Python.
func init() {
	register("aspscopes", scopesEngine)
	register("aspformat", formatEngine)
}

// ---------------------------------------------------------------------------------- observations

// scObs is what one evaluation of a BUILD source defines: the error (if the interpreter rejected it) or
// every target of the package with its attributes. Probe values are text_file targets (content=json(v)).
type scObs struct {
	Err     string           `json:"err,omitempty"`
	Targets []map[string]any `json:"targets"`
}

func scInputs(in []core.BuildInput) []string {
	out := make([]string, 0, len(in))
	for _, i := range in {
		out = append(out, i.String())
	}
	return out
}

func scNamedInputs(m map[string][]core.BuildInput) map[string][]string {
	if len(m) == 0 {
		return nil
	}
	out := map[string][]string{}
	for k, v := range m {
		out[k] = scInputs(v)
	}
	return out
}

func scLabels(in []core.BuildLabel) []string {
	out := make([]string, 0, len(in))
	for _, l := range in {
		out = append(out, l.String())
	}
	return out
}

// scTarget projects a parsed target onto a map of its declared attributes. Empty attributes are dropped
// so that observations stay small; the package name is stripped so that the same source parsed as two
// different packages gives the same observation.
func scTarget(t *core.BuildTarget, pkgName string) map[string]any {
	m := map[string]any{"name": t.Label.Name}
	put := func(k string, v any) {
		switch x := v.(type) {
		case []string:
			if len(x) == 0 {
				return
			}
		case map[string][]string:
			if len(x) == 0 {
				return
			}
		case map[string]string:
			if len(x) == 0 {
				return
			}
		case string:
			if x == "" {
				return
			}
		case bool:
			if !x {
				return
			}
		}
		m[k] = v
	}
	put("srcs", scInputs(t.Sources))
	put("named_srcs", scNamedInputs(t.NamedSources))
	put("data", scInputs(t.Data))
	put("named_data", scNamedInputs(t.NamedData))
	put("outs", append([]string{}, t.DeclaredOutputs()...))
	put("named_outs", t.DeclaredNamedOutputs())
	put("optional_outs", t.OptionalOutputs)
	put("labels", t.Labels)
	put("cmd", t.Command)
	put("cmds", t.Commands)
	put("deps", scLabels(t.DeclaredDependencies()))
	put("exported_deps", scLabels(t.ExportedDependencies()))
	put("visibility", scLabels(t.Visibility))
	put("tools", scInputs(t.Tools))
	put("named_tools", scNamedInputs(t.AllNamedTools()))
	put("content", t.FileContent)
	put("binary", t.IsBinary)
	put("test_only", t.TestOnly)
	put("hashes", t.Hashes)
	put("licences", t.Licences)
	put("secrets", t.Secrets)
	put("requires", t.Requires)
	if len(t.Provides) > 0 {
		p := map[string][]string{}
		for k, v := range t.Provides {
			p[k] = scLabels(v)
		}
		put("provides", p)
	}
	put("env", t.Env)
	if t.PassEnv != nil {
		put("pass_env", *t.PassEnv)
	}
	put("entry_points", t.EntryPoints)
	put("sandbox", t.Sandbox)
	put("stamp", t.Stamp)
	put("local", t.Local)
	put("needs_transitive_deps", t.NeedsTransitiveDependencies)
	put("output_is_complete", t.OutputIsComplete)
	put("building_description", t.BuildingDescription)
	put("filegroup", t.IsFilegroup)
	put("text_file", t.IsTextFile)
	if t.BuildTimeout != 0 {
		m["timeout"] = t.BuildTimeout.String()
	}
	if t.Test != nil {
		put("test_cmd", t.Test.Command)
		put("test_cmds", t.Test.Commands)
		put("test_outputs", t.Test.Outputs)
		if t.Test.Flakiness != 0 {
			m["flaky"] = int(t.Test.Flakiness)
		}
		put("no_test_output", t.Test.NoOutput)
	}
	_ = pkgName
	// labels of the package itself are rendered with the package name; make them package-independent
	b, _ := json.Marshal(m)
	s := strings.ReplaceAll(string(b), "//"+pkgName+":", "//@PKG@:")
	var out map[string]any
	if err := json.Unmarshal([]byte(s), &out); err != nil {
		return m
	}
	return out
}

func scObserve(pkg *core.Package, err error) scObs {
	if err != nil {
		return scObs{Err: err.Error()}
	}
	ts := pkg.AllTargets()
	sort.Slice(ts, func(i, j int) bool { return ts[i].Label.Name < ts[j].Label.Name })
	o := scObs{Targets: []map[string]any{}}
	for _, t := range ts {
		o.Targets = append(o.Targets, scTarget(t, pkg.Name))
	}
	return o
}

func scEval(src string) scObs {
	pkg, err := aspEvalPackage(src, "")
	return scObserve(pkg, err)
}

func scKey(o scObs) string {
	b, _ := json.Marshal(o)
	return string(b)
}

// ---------------------------------------------------------------------------------- C17

// scopesCase: defs is the build_defs file shared by both packages; p1 / p2 are BUILD bodies (without the
// subinclude line, which the harness prepends with the label it registered for defs).
type scopesCase struct {
	ID    int    `json:"id"`
	Defs  string `json:"defs"`
	P1    string `json:"p1"`
	P2    string `json:"p2"`
	Alone bool   `json:"alone"` // evaluate P2 alone on a fresh copy of the subinclude (the reference; checks the rendering)
	Again bool   `json:"again"` // also evaluate P2 a second time on the same subinclude (repeatability of the observer)
	Rev   bool   `json:"rev"`   // also run the order P2 then P1
	Conc  int    `json:"conc"`  // repetitions of the concurrent variant (0 = none)
	Par   int    `json:"par"`   // goroutines per package in the concurrent variant
}

func scWithLabel(defs string) (func(string) string, error) {
	label, err := aspDefineSubinclude(defs)
	if err != nil {
		return nil, err
	}
	return func(b string) string { return fmt.Sprintf("subinclude(%q)\n", label) + b }, nil
}

func scopesEngine(args []string) error {
	defer flush()
	aspInit()
	var cases []scopesCase
	if err := readCases(args[0], func(raw json.RawMessage) error {
		var c scopesCase
		if err := json.Unmarshal(raw, &c); err != nil {
			return err
		}
		cases = append(cases, c)
		return nil
	}); err != nil {
		return err
	}
	// Cases are independent (each registers its own subinclude targets, so nothing is shared between two
	// cases but the interpreter and its builtins); inside a case the evaluations are strictly ordered.
	workers := 8
	if len(args) > 1 {
		fmt.Sscanf(args[1], "%d", &workers)
	}
	var mu sync.Mutex
	var firstErr error
	ch := make(chan scopesCase)
	var wg sync.WaitGroup
	for w := 0; w < workers; w++ {
		wg.Add(1)
		go func() {
			defer wg.Done()
			for c := range ch {
				res, err := scopesOne(c)
				mu.Lock()
				if err != nil && firstErr == nil {
					firstErr = err
				} else if err == nil {
					emit(res)
				}
				mu.Unlock()
			}
		}()
	}
	for _, c := range cases {
		ch <- c
	}
	close(ch)
	wg.Wait()
	return firstErr
}

func scopesOne(c scopesCase) (map[string]any, error) {
	res := map[string]any{"id": c.ID}
	// (a) P2 alone on a fresh copy of the subinclude: the reference observation (it must equal the spec's
	// Original, so it is only evaluated on request); and a second evaluation of P2 on the same subinclude: P2
	// itself must be repeatable, otherwise the comparisons below would blame P1 for what P2 does to itself
	if c.Alone || c.Again {
		w, err := scWithLabel(c.Defs)
		if err != nil {
			return nil, err
		}
		res["alone"] = scEval(w(c.P2))
		if c.Again {
			res["alone_again"] = scEval(w(c.P2))
		}
	}
	// (b) order P1 then P2, same interpreter, same (fresh) subinclude globals; P1 is first there, so this
	// is also "P1 alone"
	w, err := scWithLabel(c.Defs)
	if err != nil {
		return nil, err
	}
	res["p1"] = scEval(w(c.P1))
	res["after"] = scEval(w(c.P2))
	// (c) order P2 then P1: P2's package is read back only after P1 ran (results of parsing one package
	// cannot be changed by a later one), and P1 must define what it defines when it is first
	if c.Rev {
		w, err = scWithLabel(c.Defs)
		if err != nil {
			return nil, err
		}
		pkg2, err2 := aspEvalPackage(w(c.P2), "")
		res["p1_second"] = scEval(w(c.P1))
		res["before"] = scObserve(pkg2, err2)
	}
	// (d) concurrent: Par goroutines evaluate P1 and Par evaluate P2 at the same time, Conc rounds, each
	// round on a fresh copy of the subinclude (so the first Subinclude() call races too)
	if c.Conc > 0 {
		par := c.Par
		if par <= 0 {
			par = 2
		}
		seen2 := map[string]int{}
		seen1 := map[string]int{}
		var mu sync.Mutex
		for r := 0; r < c.Conc; r++ {
			w, err := scWithLabel(c.Defs)
			if err != nil {
				return nil, err
			}
			var wg sync.WaitGroup
			start := make(chan struct{})
			for g := 0; g < 2*par; g++ {
				wg.Add(1)
				go func(g int) {
					defer wg.Done()
					<-start
					src, seen := c.P1, seen1
					if g%2 == 1 {
						src, seen = c.P2, seen2
					}
					k := scKey(scEval(w(src)))
					mu.Lock()
					seen[k]++
					mu.Unlock()
				}(g)
			}
			close(start)
			wg.Wait()
		}
		res["conc_p2"] = scDistinct(seen2)
		res["conc_p1"] = scDistinct(seen1)
		res["conc_runs"] = c.Conc * par
	}
	return res, nil
}

func scDistinct(seen map[string]int) []map[string]any {
	keys := make([]string, 0, len(seen))
	for k := range seen {
		keys = append(keys, k)
	}
	sort.Strings(keys)
	out := []map[string]any{}
	for _, k := range keys {
		var o scObs
		json.Unmarshal([]byte(k), &o)
		out = append(out, map[string]any{"n": seen[k], "obs": o})
	}
	return out
}

// ---------------------------------------------------------------------------------- C38

// formatCase: src is the file handed to the real formatter; tail is appended at evaluation time only
// (probe targets, calls of the functions the file defines) and is never formatted; defs are build_defs
// sources registered as subincludable targets, their labels replace @DEFS<i>@ in src and tail.
type formatCase struct {
	ID   int      `json:"id"`
	Src  string   `json:"src"`
	Tail string   `json:"tail"`
	Defs []string `json:"defs"`
}

var fmtConfig *core.Configuration

func scFormatFile(path string) (changed bool, text string, err error) {
	defer func() {
		if r := recover(); r != nil {
			err = fmt.Errorf("ESCAPED PANIC: %v", r)
		}
	}()
	if fmtConfig == nil {
		fmtConfig = core.DefaultConfiguration()
		fmtConfig.Please.NumThreads = 1
	}
	changed, err = format.Format(fmtConfig, []string{path}, true, true)
	b, rerr := os.ReadFile(path)
	if rerr != nil {
		return changed, "", rerr
	}
	return changed, string(b), err
}

func formatEngine(args []string) error {
	defer flush()
	aspInit()
	dir := filepath.Join(os.Getenv("VERIF_SCRATCH"), "fmtcases")
	if os.Getenv("VERIF_SCRATCH") == "" {
		dir = "fmtcases"
	}
	if err := os.MkdirAll(dir, 0o755); err != nil {
		return err
	}
	return readCases(args[0], func(raw json.RawMessage) error {
		var c formatCase
		if err := json.Unmarshal(raw, &c); err != nil {
			return err
		}
		subst := func(s string) string { return s }
		if len(c.Defs) > 0 {
			pairs := []string{}
			for i, d := range c.Defs {
				label, err := aspDefineSubinclude(d)
				if err != nil {
					return err
				}
				pairs = append(pairs, fmt.Sprintf("@DEFS%d@", i), label)
			}
			rp := strings.NewReplacer(pairs...)
			subst = rp.Replace
		}
		src, tail := subst(c.Src), subst(c.Tail)
		res := map[string]any{"id": c.ID, "src": src}
		res["before"] = scEval(src + "\n" + tail)
		path := filepath.Join(dir, fmt.Sprintf("c%d.build", c.ID))
		if err := os.WriteFile(path, []byte(src), 0o644); err != nil {
			return err
		}
		changed, text, err := scFormatFile(path)
		res["changed"] = changed
		res["formatted"] = text
		if err != nil {
			res["fmt_err"] = err.Error()
			emit(res)
			return nil
		}
		res["after"] = scEval(text + "\n" + tail)
		changed2, text2, err := scFormatFile(path)
		res["changed2"] = changed2
		res["formatted2"] = text2
		if err != nil {
			res["fmt_err2"] = err.Error()
		}
		os.Remove(path)
		emit(res)
		return nil
	})
}
