---- MODULE TraceSched ----
EXTENDS Naturals, Sequences, FiniteSets, TLC, Json, SequencesExt
Trace == ndJsonDeserialize("trace.ndjson")
VARIABLES deps, req, fail, started, ended, ok, exited, l
vars == <<deps, req, fail, started, ended, ok, exited, l>>
ASSUME TLCSet(1, 0)
Empty == [x \in {} |-> {}]
TInit == deps = Empty /\ req = {} /\ fail = {} /\ started = {} /\ ended = {} /\ ok = {} /\ exited = FALSE /\ l = 1
Ev(e) == l <= Len(Trace) /\ Trace[l].ev = e /\ l' = l + 1
TReset == /\ Ev("Reset")
          /\ deps' = [t \in DOMAIN Trace[l].deps |-> ToSet(Trace[l].deps[t])]
          /\ req' = ToSet(Trace[l].req) /\ fail' = ToSet(Trace[l].fail)
          /\ started' = {} /\ ended' = {} /\ ok' = {} /\ exited' = FALSE
\* C04: a command starts at most once, and only after every dependency's command ended successfully
TStart == /\ Ev("Start") /\ ~exited
          /\ LET t == Trace[l].t IN
               /\ t \in DOMAIN deps /\ t \notin started
               /\ deps[t] \subseteq ok
               /\ started' = started \cup {t}
          /\ UNCHANGED <<deps, req, fail, ended, ok, exited>>
TEnd == /\ Ev("End")
        /\ LET t == Trace[l].t IN
             /\ t \in started /\ t \notin ended
             /\ ended' = ended \cup {t}
             /\ ok' = IF Trace[l].rc = 0 THEN ok \cup {t} ELSE ok
        /\ UNCHANGED <<deps, req, fail, started, exited>>
\* C05: exit status is zero exactly when every requested target and its dependencies could be built
RECURSIVE Clo(_, _)
Clo(S, n) == IF n = 0 THEN S ELSE Clo(S \cup UNION {deps[x] : x \in S}, n - 1)
Needed == Clo(req, Cardinality(DOMAIN deps))
TExit == /\ Ev("Exit") /\ started = ended
         /\ (Trace[l].code = 0) <=> (Needed \subseteq ok)
         /\ exited' = TRUE
         /\ UNCHANGED <<deps, req, fail, started, ended, ok>>
TNext == TReset \/ TStart \/ TEnd \/ TExit
HW == TLCSet(1, IF l > TLCGet(1) THEN l ELSE TLCGet(1))
Accepted == TLCGet(1) = Len(Trace) + 1
====
