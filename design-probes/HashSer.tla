---- MODULE HashSer ----
EXTENDS Naturals, Sequences, FiniteSets, TLC, Json
\* Strings are sequences over a tiny alphabet; "=" is symbol 3.
Sym == {1, 2, 3}
Str == {<<>>} \cup {<<a>> : a \in Sym} \cup {<<a, b>> : a \in {1,2}, b \in Sym}
StrNE == Str \ {<<>>}
Lists(S) == {<<>>} \cup {<<x>> : x \in S} \cup {<<x, y>> : x \in S, y \in S}
\* A cut-down target: srcs, outs (lists), env (map as set of pairs with distinct keys), binary flag
Keys == {<<1>>, <<2>>, <<1, 3>>}
Vals == {<<1>>, <<2>>, <<3, 2>>, <<>>}
Maps == {m \in SUBSET (Keys \X Vals) : \A p, q \in m : p[1] = q[1] => p = q}
VARIABLES t1, t2
Target == [srcs : Lists(StrNE), outs : Lists(StrNE), env : Maps, bin : BOOLEAN]
RECURSIVE Cat(_)
Cat(l) == IF l = <<>> THEN <<>> ELSE Head(l) \o Cat(Tail(l))
\* sorted keys: order Keys by a fixed total order
KeyOrder == <<<<1>>, <<1, 3>>, <<2>>>>
SerMap(m) == LET F[i \in 0..Len(KeyOrder)] ==
                   IF i = 0 THEN <<>>
                   ELSE LET k == KeyOrder[i] IN
                        IF \E p \in m : p[1] = k
                        THEN F[i-1] \o k \o <<3>> \o (CHOOSE p \in m : p[1] = k)[2]
                        ELSE F[i-1]
             IN F[Len(KeyOrder)]
Ser(t) == Cat(t.srcs) \o Cat(t.outs) \o (IF t.bin THEN <<9>> ELSE <<8>>) \o SerMap(t.env)
\* pairs differing in exactly one attribute
DiffCount(a, b) == (IF a.srcs # b.srcs THEN 1 ELSE 0) + (IF a.outs # b.outs THEN 1 ELSE 0)
                 + (IF a.env # b.env THEN 1 ELSE 0) + (IF a.bin # b.bin THEN 1 ELSE 0)
Base == [srcs |-> <<<<1>>>>, outs |-> <<<<2>>>>, env |-> {}, bin |-> FALSE]
Init == \/ \E a, b \in Lists(StrNE) : a # b /\ t1 = [Base EXCEPT !.srcs = a] /\ t2 = [Base EXCEPT !.srcs = b]
        \/ \E a, b \in Lists(StrNE) : a # b /\ t1 = [Base EXCEPT !.outs = a] /\ t2 = [Base EXCEPT !.outs = b]
        \/ \E a, b \in Maps : a # b /\ t1 = [Base EXCEPT !.env = a] /\ t2 = [Base EXCEPT !.env = b]
        \/ (t1 = Base /\ t2 = [Base EXCEPT !.bin = TRUE])
Next == UNCHANGED <<t1, t2>>
Collide == Ser(t1) = Ser(t2)
Emit == Collide => PrintT(<<"COLLIDE", ToJson([a |-> t1, b |-> t2])>>)
====
