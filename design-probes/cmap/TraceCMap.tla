---- MODULE TraceCMap ----
EXTENDS Naturals, Sequences, FiniteSets, TLC, Json
Trace == ndJsonDeserialize("trace.ndjson")
Keys == {1, 2}
Threads == {0, 1, 2}
None == [op |-> "none"]
VARIABLES m, pend, l
vars == <<m, pend, l>>
ASSUME TLCSet(1, 0)
TInit == m = [k \in Keys |-> 0] /\ pend = [t \in Threads |-> None] /\ l = 1
Ev(e) == l <= Len(Trace) /\ Trace[l].ev = e /\ l' = l + 1
TReset == Ev("Reset") /\ m' = [k \in Keys |-> 0] /\ pend' = [t \in Threads |-> None]
TCall == /\ Ev("Call")
         /\ LET r == Trace[l] IN
              /\ pend[r.th] = None
              /\ pend' = [pend EXCEPT ![r.th] = [op |-> r.op, k |-> r.k, v |-> r.v, lin |-> FALSE, rok |-> FALSE, rv |-> 0, rw |-> FALSE]]
         /\ UNCHANGED m
\* silent linearization step: the operation takes effect atomically on the sequential map
TLin(t) == /\ pend[t] # None /\ ~pend[t].lin
           /\ LET p == pend[t] k == p.k IN
              CASE p.op = "Add" ->
                     /\ m' = IF m[k] = 0 THEN [m EXCEPT ![k] = p.v] ELSE m
                     /\ pend' = [pend EXCEPT ![t] = [p EXCEPT !.lin = TRUE, !.rok = (m[k] = 0)]]
                [] p.op = "Set" ->
                     /\ m' = [m EXCEPT ![k] = p.v]
                     /\ pend' = [pend EXCEPT ![t] = [p EXCEPT !.lin = TRUE, !.rok = TRUE]]
                [] p.op = "AddOrGet" ->
                     /\ m' = IF m[k] = 0 THEN [m EXCEPT ![k] = p.v] ELSE m
                     /\ pend' = [pend EXCEPT ![t] = [p EXCEPT !.lin = TRUE, !.rok = (m[k] = 0), !.rv = IF m[k] = 0 THEN p.v ELSE m[k]]]
                [] p.op = "GetOrWait" ->
                     /\ m' = m
                     /\ pend' = [pend EXCEPT ![t] = [p EXCEPT !.lin = TRUE, !.rok = TRUE, !.rv = m[k], !.rw = (m[k] = 0)]]
           /\ UNCHANGED l
TRet == /\ Ev("Ret")
        /\ LET r == Trace[l] p == pend[r.th] IN
             /\ p # None /\ p.lin
             /\ p.rok = r.ok /\ p.rv = r.v /\ p.rw = r.w
             /\ pend' = [pend EXCEPT ![r.th] = None]
        /\ UNCHANGED m
TWoken == Ev("Woken") /\ m[Trace[l].k] # 0 /\ UNCHANGED <<m, pend>>
TNotWoken == Ev("NotWoken") /\ m[Trace[l].k] = 0 /\ UNCHANGED <<m, pend>>
TAllRet == Ev("AllReturned") /\ (\A t \in Threads : pend[t] = None) /\ UNCHANGED <<m, pend>>
TNext == TReset \/ TCall \/ TRet \/ TWoken \/ TNotWoken \/ TAllRet \/ \E t \in Threads : TLin(t)
HW == TLCSet(1, IF l > TLCGet(1) THEN l ELSE TLCGet(1))
Accepted == TLCGet(1) = Len(Trace) + 1
====
