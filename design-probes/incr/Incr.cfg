CONSTANTS MaxEdits = 3
 DirNamesHashed = FALSE
SPECIFICATION Spec
INVARIANTS C01 C03
VIEW View
CHECK_DEADLOCK FALSE
