---- MODULE Incr ----
EXTENDS Naturals, Sequences, FiniteSets, TLC, Json
CONSTANTS MaxEdits, DirNamesHashed
T == 1..3
F == {"f1", "f2"}
C == {"c0", "c1"}
K == {"k0", "k1"}
Nil == [nil |-> TRUE]
VARIABLES src, defs, out, executed, edits, hist, last
vars == <<src, defs, out, executed, edits, hist, last>>

\* a definition: kind, cmd id, one source file or "-", deps on lower-numbered targets
Defs(t) == [kind : {"cat", "const", "dir"}, cmd : K, file : F \cup {"-"}, deps : SUBSET (1..(t-1))]
\* menu of repository shapes (chain with a dir-producing leaf, diamond)
Shapes == {
  <<[kind |-> "dir", cmd |-> "k0", file |-> "f1", deps |-> {}],
    [kind |-> "cat", cmd |-> "k0", file |-> "f2", deps |-> {1}],
    [kind |-> "cat", cmd |-> "k0", file |-> "-", deps |-> {1, 2}]>>,
  <<[kind |-> "cat", cmd |-> "k0", file |-> "f1", deps |-> {}],
    [kind |-> "const", cmd |-> "k0", file |-> "f2", deps |-> {1}],
    [kind |-> "cat", cmd |-> "k0", file |-> "-", deps |-> {2}]>> }

SetToSortedSeq(S) == LET RECURSIVE R(_) R(X) == IF X = {} THEN <<>> ELSE LET m == CHOOSE x \in X : \A y \in X : x <= y IN <<m>> \o R(X \ {m}) IN R(S)

FileC(s, d) == IF d.file = "-" THEN "-" ELSE s[d.file]
\* Evaluate a command on its inputs (file content + dep output trees)
Eval(d, fc, depTrees) ==
  CASE d.kind = "const" -> [k |-> d.cmd, args |-> <<>>, dirname |-> "-"]
    [] d.kind = "cat"   -> [k |-> d.cmd, args |-> <<fc>> \o depTrees, dirname |-> "-"]
    [] d.kind = "dir"   -> [k |-> d.cmd, args |-> depTrees, dirname |-> fc]   \* entry *name* comes from the file
RECURSIVE Ideal(_, _, _)
Ideal(s, ds, t) == Eval(ds[t], FileC(s, ds[t]), [i \in 1..Cardinality(ds[t].deps) |-> Ideal(s, ds, SetToSortedSeq(ds[t].deps)[i])])

\* what the implementation's hash sees of a tree (flaw: directory entry names are not hashed)
HashOf(tree) == IF DirNamesHashed THEN tree ELSE [tree EXCEPT !.dirname = "-"]

Init == /\ src = [f \in F |-> "c0"] /\ defs \in Shapes
        /\ out = [t \in T |-> Nil] /\ executed = {} /\ edits = 0 /\ hist = <<>>
        /\ last = [t \in T |-> Nil]

EditFile == \E f \in F, c \in C : /\ src[f] # c /\ edits < MaxEdits
                                  /\ src' = [src EXCEPT ![f] = c] /\ edits' = edits + 1
                                  /\ hist' = Append(hist, [act |-> "EditFile", f |-> f, c |-> c])
                                  /\ UNCHANGED <<defs, out, executed, last>>
EditCmd == \E t \in T, k \in K : /\ defs[t].cmd # k /\ edits < MaxEdits
                                 /\ defs' = [defs EXCEPT ![t].cmd = k] /\ edits' = edits + 1
                                 /\ hist' = Append(hist, [act |-> "EditCmd", t |-> t, k |-> k])
                                 /\ UNCHANGED <<src, out, executed, last>>
DeleteOut == /\ edits < MaxEdits /\ \E t \in T : out[t] # Nil
             /\ out' = [t \in T |-> Nil] /\ edits' = edits + 1
             /\ hist' = Append(hist, [act |-> "DeletePlzOut"])
             /\ UNCHANGED <<src, defs, executed, last>>

\* algorithm-level build of target 3 and its closure, in dependency order 1,2,3
RECURSIVE Closure(_)
Closure(t) == {t} \cup UNION {Closure(d) : d \in defs[t].deps}
BuildOne(o, ex, t) ==
  LET d == defs[t]
      depTrees == [i \in 1..Cardinality(d.deps) |-> o[SetToSortedSeq(d.deps)[i]].tree]
      inH == <<FileC(src, d), [i \in 1..Len(depTrees) |-> HashOf(depTrees[i])]>>
      needs == o[t] = Nil \/ o[t].def # d \/ o[t].inH # inH
      newTree == Eval(d, FileC(src, d), depTrees)
      \* moveOutput keeps the old output when the hashes are equal
      kept == IF o[t] # Nil /\ HashOf(o[t].tree) = HashOf(newTree) THEN o[t].tree ELSE newTree
  IN IF needs THEN <<[o EXCEPT ![t] = [tree |-> kept, def |-> d, inH |-> inH]], ex \cup {t}>>
     ELSE <<o, ex>>
Build == /\ hist # <<>> => hist[Len(hist)].act # "Build"
         /\ LET cl == Closure(3)
                s1 == IF 1 \in cl THEN BuildOne(out, {}, 1) ELSE <<out, {}>>
                s2 == IF 2 \in cl THEN BuildOne(s1[1], s1[2], 2) ELSE s1
                s3 == BuildOne(s2[1], s2[2], 3)
                \* property-level bound for C03: targets whose def or input *content* changed since last build
                Cur(t) == <<defs[t], FileC(src, defs[t]), [i \in 1..Cardinality(defs[t].deps) |-> Ideal(src, defs, SetToSortedSeq(defs[t].deps)[i])]>>
                may == {t \in cl : last[t] = Nil \/ out[t] = Nil \/ last[t] # Cur(t)}
            IN /\ out' = s3[1] /\ executed' = s3[2]
               /\ last' = [t \in T |-> IF t \in cl THEN Cur(t) ELSE last[t]]
               /\ hist' = Append(hist, [act |-> "Build", expectOut |-> [t \in cl |-> Ideal(src, defs, t)], mayRun |-> may, algoRan |-> s3[2]])
         /\ UNCHANGED <<src, defs, edits>>
Next == EditFile \/ EditCmd \/ DeleteOut \/ Build
Spec == Init /\ [][Next]_vars

LastIsBuild == hist # <<>> /\ hist[Len(hist)].act = "Build"
C01 == LastIsBuild => \A t \in Closure(3) : out[t] # Nil /\ out[t].tree = Ideal(src, defs, t)
C03 == LastIsBuild => executed \subseteq hist[Len(hist)].mayRun
View == <<src, defs, out, executed, edits, LastIsBuild>>
====
