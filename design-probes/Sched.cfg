CONSTANTS N = 3
 Workers = 2
 KeepGoing = FALSE
 FixFlaw = FALSE
SPECIFICATION Spec
INVARIANTS Once DepsFirst ExitOK
PROPERTY Terminates
CHECK_DEADLOCK FALSE
